#!/bin/bash
# Offline, idempotent: builds /verif/.venv (python 3.12 + z3/cvc5/crosshair/deal/icontract/jsonschema)
# with a .pth that exposes /venv's site-packages (labtech's own third-party deps) for native replays.
set -e
cd "$(dirname "$0")"
export PIP_NO_INDEX=1
# one builder at a time (several checks started together on a fresh checkout would otherwise race on .venv)
exec 9>.setup.lock
flock 9
if [ -x .venv/bin/python ] && .venv/bin/python -c "import z3, jsonschema, frozendict" 2>/dev/null; then
  exit 0
fi
rm -rf .venv
PY=/venv/bin/python
[ -x "$PY" ] || PY=python3.12
"$PY" -m venv .venv
.venv/bin/python -m pip install -q --no-index --find-links /opt/veriftools/wheels \
    z3-solver cvc5 jsonschema crosshair-tool deal icontract >/dev/null
SP=$(.venv/bin/python -c "import sysconfig; print(sysconfig.get_paths()['purelib'])")
echo "import site; site.addsitedir('/venv/lib/python3.12/site-packages')" > "$SP/zz_labtech_deps.pth"
.venv/bin/python -c "import z3, jsonschema, frozendict; print('verif venv ok, z3', z3.get_version_string())"
