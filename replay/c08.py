"""Native replay / bounded stand-in for C08: the Lab behaves like a plain map task -> stored result.

All operation sequences up to a length bound over a small universe (two cacheable tasks with a dependency, one
cache=None task) are executed against a real Lab and a reference dictionary, step by step, for LocalStorage, an
fsspec-backed storage (fsspec LocalFileSystem) and storage=None.
"""
from __future__ import annotations

import argparse
import itertools
import json
import logging
import sys
import tempfile
import traceback
from pathlib import Path

import labtech
from labtech.storage import FsspecStorage

COUNTER = {'n': 0}


@labtech.task
class Leaf:
    n: int

    def run(self):
        COUNTER['n'] += 1
        return ('leaf', self.n, COUNTER['n'])


@labtech.task
class Top:
    leaf: Leaf

    def run(self):
        COUNTER['n'] += 1
        return ('top', self.leaf.result[1], COUNTER['n'])


@labtech.task(cache=None)
class Eph:
    n: int

    def run(self):
        COUNTER['n'] += 1
        return ('eph', self.n, COUNTER['n'])


class LocalFsspec(FsspecStorage):
    def __init__(self, d):
        super().__init__(Path(d).resolve())

    def fs_constructor(self):
        from fsspec.implementations.local import LocalFileSystem
        return LocalFileSystem()


def universe():
    l1, l2 = Leaf(1), Leaf(2)
    return [l1, l2, Top(l1), Eph(7)]


def ops():
    U = universe()
    out = []
    for i, t in enumerate(U):
        out.append(('run', [i], False))
        out.append(('run', [i], True))
        out.append(('uncache', [i]))
    out.append(('run', [2, 1], False))
    out.append(('uncache', [3, 0]))
    out.append(('uncache', [1, 0]))
    out.append(('cached_tasks',))
    return out


def run_seq(seq, kind, d):
    logging.getLogger('labtech').setLevel(logging.CRITICAL)
    storage = {'local': d, 'fsspec': LocalFsspec(d), 'none': None}[kind]
    lab = labtech.Lab(storage=storage, runner_backend='serial', continue_on_failure=True)
    U = universe()
    model = {}
    for step, op in enumerate(seq):
        before = dict(model)
        if op[0] == 'run':
            tasks = [U[i] for i in op[1]]
            res = lab.run_tasks(tasks, bust_cache=op[2], disable_progress=True, disable_top=True)
            # reference: which tasks execute
            def need(t, acc):
                if t in acc:
                    return
                hit = (t in model) and not op[2]
                acc[t] = hit
                if not hit:
                    for f in ('leaf',):
                        if hasattr(t, f):
                            need(getattr(t, f), acc)
            acc = {}
            for t in tasks:
                need(t, acc)
            for t, hit in acc.items():
                if hit:
                    if t in res and model[t] is not None and res[t] != model[t]:
                        return f'step {step} {op}: cache hit for {t} returned {res[t]}, stored {model[t]}'
                    if t in res and model[t] is None:
                        model[t] = res[t]
                elif kind != 'none' and not isinstance(t, Eph):
                    model[t] = res.get(t)      # None: stored, value not observed (an unrequested dependency)
        elif op[0] == 'uncache':
            tasks = [U[i] for i in op[1]]
            lab.uncache_tasks(tasks)
            for t in tasks:
                model.pop(t, None)
        elif op[0] == 'cached_tasks':
            got = set(lab.cached_tasks([Leaf, Top, Eph]))
            if got != set(model):
                return f'step {step}: cached_tasks() == {sorted(map(str, got))}, model says {sorted(map(str, model))}'
        for t in U:
            if lab.is_cached(t) != (t in model):
                return f'step {step} {op}: is_cached({t}) == {lab.is_cached(t)}, model says {t in model} (model before the step: {sorted(map(str, before))})'
    return None


def process_history(kind, backend, d):
    """One Lab object whose tasks execute (and save) in WORKER PROCESSES: what the workers stored must be visible to the
    same Lab object right after run_tasks returns -- to is_cached AND to cached_tasks -- and so must a later removal."""
    logging.getLogger('labtech').setLevel(logging.CRITICAL)
    storage = {'local': d, 'fsspec': LocalFsspec(d)}[kind]
    lab = labtech.Lab(storage=storage, runner_backend=backend, max_workers=2, continue_on_failure=True)
    l1, l2 = Leaf(1), Leaf(2)
    top = Top(l1)
    model = set()

    def agree(step):
        got = set(lab.cached_tasks([Leaf, Top, Eph]))
        if got != model:
            return f'[{kind}/{backend}] {step}: cached_tasks() == {sorted(map(str, got))}, but the stored entries are {sorted(map(str, model))}'
        for t in (l1, l2, top):
            if lab.is_cached(t) != (t in model):
                return f'[{kind}/{backend}] {step}: is_cached({t}) == {lab.is_cached(t)}, expected {t in model}'
        return None
    steps = [('nothing stored yet', None), ('after run_tasks([Top(l1)])', lambda: (lab.run_tasks([top], disable_progress=True, disable_top=True), model.update({l1, top}))),
             ('after run_tasks([Leaf(2), Eph(7)])', lambda: (lab.run_tasks([l2, Eph(7)], disable_progress=True, disable_top=True), model.add(l2))),
             ('after uncache_tasks([Leaf(1)])', lambda: (lab.uncache_tasks([l1]), model.discard(l1))),
             ('after run_tasks([Top(l1)]) on the cached Top', lambda: lab.run_tasks([top], disable_progress=True, disable_top=True)),
             ('after run_tasks([Leaf(1)], bust_cache=True)', lambda: (lab.run_tasks([l1], bust_cache=True, disable_progress=True, disable_top=True), model.add(l1)))]
    for name, act in steps:
        try:
            if act:
                act()
            why = agree(name)
        except Exception as ex:      # noqa -- a plain map never raises on these operations
            why = f'[{kind}/{backend}] {name}: the Lab raised {type(ex).__name__}: {str(ex)[:200]}'
        if why:
            return why
    return None


def explore(tier='quick'):
    L = 3 if tier == 'quick' else 4
    n = 0
    O = ops()
    # quick tier: every pair of operations, and every triple over the ten core operations (each task run with and without
    # bust_cache, uncached alone and together, listed) -- not a prefix of the full product, which would never start with a later op
    core = [O[0], O[1], O[2], O[6], O[7], O[8], O[9], O[12], O[14], O[15]]
    for kind in ('local', 'fsspec'):
        for backend in (('fork',) if tier == 'quick' else ('fork', 'spawn')):
            with tempfile.TemporaryDirectory() as d:
                why = process_history(kind, backend, d)
                n += 1
                if why:
                    return dict(reproduced=True, level='api', storage=kind, sequence=[backend], summary=why), n
    for kind in ('local', 'fsspec', 'none'):
        if kind == 'local':
            seqs = itertools.chain(itertools.product(O, repeat=2), itertools.product(core, repeat=3)) if tier == 'quick' else itertools.product(O, repeat=L)
        else:
            seqs = itertools.product(O[:9] + O[-4:], repeat=2)
        for seq in seqs:
            with tempfile.TemporaryDirectory() as d:
                why = run_seq(list(seq) + [('cached_tasks',)], kind, d)
                n += 1
                if why:
                    return dict(reproduced=True, level='api', storage=kind, sequence=[str(o) for o in seq], summary=f'[{kind}] {why}'), n
    return dict(reproduced=False, level='api', sequences=n), n


def main():
    ap = argparse.ArgumentParser()
    ap.add_argument('--obligation', default='')
    ap.add_argument('--repo', default='/repo')
    ap.add_argument('--prop', default='C08')
    ap.add_argument('--tier', default='quick')
    a = ap.parse_args()
    try:
        res, n = explore(a.tier)
    except Exception:
        res, n = dict(reproduced=False, error=traceback.format_exc()[-1500:]), 0
    if not a.obligation:
        print(json.dumps([dict(name='c08:operation-sequences-vs-dict-model', bounded=True,
                               bound=f'{n} sequences of length <= 3-4 over 4 tasks x (LocalStorage, fsspec LocalFileSystem, storage=None), serial backend; plus one 6-step history per storage with the fork (thorough: and spawn) backend, cached_tasks and is_cached compared with the stored entries after every step',
                               violation=bool(res.get('reproduced')), witness=[res] if res.get('reproduced') else [], error=res.get('error'))], default=str))
    else:
        print(json.dumps(res, default=str))
    return 1 if res.get('reproduced') else 0


if __name__ == '__main__':
    sys.exit(main())
