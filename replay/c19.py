"""Native replay for C19: every record a task emits through the labtech logger and every line it prints under a process
backend reaches the caller's handlers exactly once and before run_tasks returns."""
from __future__ import annotations

import argparse
import json
import logging
import sys
import tempfile
import time
import traceback

import labtech


@labtech.task(cache=None)
class Talk:
    name: str
    secs: float = 0.0
    flushes: int = 0

    def run(self):
        time.sleep(self.secs)
        labtech.logger.info(f'LOG-{self.name}')
        print(f'OUT-{self.name}')
        for _ in range(self.flushes):
            sys.stdout.flush()
        print(f'OUT2-{self.name}')
        print(f'ERR-{self.name}', file=sys.stderr)
        return self.name


class Collect(logging.Handler):
    def __init__(self):
        super().__init__()
        self.msgs = []

    def emit(self, record):
        self.msgs.append(record.getMessage())


def check(backend, tasks, label):
    h = Collect()
    labtech.logger.addHandler(h)
    labtech.logger.setLevel(logging.INFO)
    try:
        with tempfile.TemporaryDirectory() as d:
            lab = labtech.Lab(storage=d, runner_backend=backend, max_workers=2)
            lab.run_tasks(tasks, disable_progress=True, disable_top=True)
        got = list(h.msgs)          # what has been delivered by the time run_tasks returned
    finally:
        labtech.logger.removeHandler(h)
    text = '\n'.join(got)
    for t in tasks:
        for tag in (f'LOG-{t.name}', f'OUT-{t.name}', f'OUT2-{t.name}', f'ERR-{t.name}'):
            n = sum(line.count(tag + '\n') + (1 if line.endswith(tag) else 0) for line in [text + '\n']) if False else text.count(tag)
            # OUT-x is a prefix of nothing else; OUT2-x counted separately
            n = sum(1 for line in text.split('\n') if line.strip().endswith(tag))
            if n != 1:
                return f'[{backend}/{label}] message {tag!r} was delivered {n} times before run_tasks returned (expected exactly once)'
    return None


def main():
    ap = argparse.ArgumentParser()
    ap.add_argument('--obligation', default='')
    ap.add_argument('--repo', default='/repo')
    a = ap.parse_args()
    res = dict(reproduced=False, level='api')
    try:
        for backend in ('fork', 'spawn'):
            for label, tasks in (('single', [Talk('a')]),
                                 ('last-finisher-slow', [Talk('a'), Talk('b', 0.7)]),
                                 ('double-flush', [Talk('a', 0.0, 2), Talk('b')])):
                why = check(backend, tasks, label)
                if why:
                    res = dict(reproduced=True, level='api', summary=why)
                    break
            if res['reproduced']:
                break
    except Exception:
        res = dict(reproduced=False, error=traceback.format_exc()[-1500:])
    print(json.dumps(res, default=str))
    return 1 if res.get('reproduced') else 0


if __name__ == '__main__':
    sys.exit(main())
