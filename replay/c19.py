"""Native harness for C19: every record a task emits through the labtech logger and everything it prints under a
process backend reaches the caller's handlers exactly once and before run_tasks returns.

BOUNDED (never counted as proved): replay of refuted C19 obligations, and stand-in on every run.

Task universe: tasks that log and print in the patterns that stress the three contracts --
  * plain lines, several flushes in a row, flush between lines (proxy exactly-once);
  * UNTERMINATED text that is flushed and later completed (`print(x, end='', flush=True)`, `write(x); flush()`),
    output whose last line has no newline (flush-before-result);
  * volume: thousands of records from the task that finishes last, several chatty tasks finishing together
    (drain-before-return);
  * a quiet slow task after a chatty fast one, a failing task that printed before it raised.
Oracle: each tagged token appears exactly once in what the caller's handler has received when run_tasks returns.
"""
from __future__ import annotations

import argparse
import json
import logging
import sys
import tempfile
import time
import traceback

import labtech


@labtech.task(cache=None)
class Talk:
    name: str
    secs: float = 0.0
    flushes: int = 0
    mode: str = 'lines'
    volume: int = 0

    def run(self):
        time.sleep(self.secs)
        n = self.name
        labtech.logger.info(f'LOG-{n}-X')
        import threading
        labtech.logger.info('ARG-%s-X with %s', n, threading.Lock())     # a %-style record whose argument cannot be pickled
        if self.mode == 'die':
            # records emitted (and text flushed) BEFORE the worker dies hard must still arrive: nothing may wait in the worker
            labtech.logger.info(f'DIE-{n}-X')
            print(f'DIEOUT-{n}-X', flush=True)
            sys.stdout.flush()
            import os
            os._exit(1)
        print(f'OUT-{n}-X')
        for _ in range(self.flushes):
            sys.stdout.flush()
        print(f'OUT2-{n}-X')
        print(f'ERR-{n}-X', file=sys.stderr)
        if self.mode == 'same':
            sys.stderr.flush()
            sys.stdout.flush()
            print('SAME-STDERR-BLOCK-X', file=sys.stderr)       # a flushed block whose text is identical in every task: each copy must arrive
            sys.stderr.flush()
            print('SAME-STDOUT-BLOCK-X')
            sys.stdout.flush()
        if self.mode == 'partial':
            print(f'PART-{n}-X', end='', flush=True)          # unterminated text flushed, completed later
            print(f' REST-{n}-X')
            sys.stderr.write(f'ZQE-{n}-X')
            sys.stderr.flush()
            sys.stderr.write(f' ZQF-{n}-X\n')
            sys.stdout.flush()
            sys.stdout.flush()
        if self.mode == 'tail':
            sys.stdout.write(f'TAIL-{n}-X')                    # the last output has no newline and is never flushed by the task
        for i in range(self.volume):
            labtech.logger.info(f'VOL-{n}-{i}-X')
        if self.mode == 'fail':
            print(f'BEFORE-FAIL-{n}-X')
            raise ValueError('boom')
        return n

    def tokens(self):
        n = self.name
        if self.mode == 'die':
            return [f'LOG-{n}-X', f'ARG-{n}-X', f'DIE-{n}-X', f'DIEOUT-{n}-X']
        t = [f'LOG-{n}-X', f'ARG-{n}-X', f'OUT-{n}-X', f'OUT2-{n}-X', f'ERR-{n}-X']
        if self.mode == 'partial':
            t += [f'PART-{n}-X', f'REST-{n}-X', f'ZQE-{n}-X', f'ZQF-{n}-X']
        if self.mode == 'tail':
            t += [f'TAIL-{n}-X']
        if self.mode == 'fail':
            t += [f'BEFORE-FAIL-{n}-X']
        t += [f'VOL-{n}-{i}-X' for i in range(self.volume)]
        return t


class Collect(logging.Handler):
    def __init__(self):
        super().__init__()
        self.msgs = []

    def emit(self, record):
        self.msgs.append(record.getMessage())


def check(backend, tasks, label):
    h = Collect()
    labtech.logger.addHandler(h)
    labtech.logger.setLevel(logging.INFO)
    try:
        with tempfile.TemporaryDirectory() as d:
            lab = labtech.Lab(storage=d, runner_backend=backend, max_workers=2, continue_on_failure=True)
            lab.run_tasks(tasks, disable_progress=True, disable_top=True)
        got = list(h.msgs)          # what has been delivered by the time run_tasks returned
    finally:
        labtech.logger.removeHandler(h)
    text = '\n'.join(got)
    n_same = sum(1 for t in tasks if t.mode == 'same')
    for tag in ('SAME-STDERR-BLOCK-X', 'SAME-STDOUT-BLOCK-X'):
        if n_same and text.count(tag) != n_same:
            return f'[{backend}/{label}] {n_same} tasks each printed the identical line {tag!r}; it was delivered {text.count(tag)} times'
    for t in tasks:
        for tag in t.tokens():
            n = text.count(tag)
            if n != 1:
                return f'[{backend}/{label}] {tag!r} was delivered {n} times by the time run_tasks returned (expected exactly once)'
    return None


def scenarios(tier):
    sc = [('single', [Talk('a')]),
          ('last-finisher-slow', [Talk('a'), Talk('b', 0.7)]),
          ('double-flush', [Talk('a', 0.0, 2), Talk('b')]),
          ('unterminated-then-completed', [Talk('a', 0.0, 1, 'partial'), Talk('b', 0.2, 0, 'partial')]),
          ('no-trailing-newline', [Talk('a', 0.0, 0, 'tail')]),
          ('failing-task-printed-first', [Talk('a', 0.0, 0, 'fail'), Talk('b')]),
          ('failing-task-finishes-last', [Talk('b'), Talk('a', 0.5, 0, 'fail')]),
          ('only-task-fails', [Talk('a', 0.0, 0, 'fail')]),
          ('worker-dies-after-logging', [Talk('a'), Talk('b', 0.2, 0, 'die')]),
          ('only-task-dies-after-logging', [Talk('a', 0.0, 0, 'die')]),
          ('identical-output-from-several-tasks', [Talk('a', 0.0, 0, 'same'), Talk('b', 0.1, 0, 'same'), Talk('c', 0.2, 0, 'same')]),
          ('chatty-last-finisher', [Talk('a'), Talk('b', 0.3, 0, 'lines', 1500)]),
          ('two-chatty-finish-together', [Talk('a', 0.2, 0, 'lines', 700), Talk('b', 0.2, 0, 'lines', 700)])]
    if tier != 'quick':
        sc += [('very-chatty-last-finisher', [Talk('a'), Talk('b', 0.3, 0, 'lines', 6000)]),
               ('chatty-then-quiet-slow', [Talk('a', 0.0, 0, 'lines', 2000), Talk('b', 1.0)]),
               ('six-tasks-mixed', [Talk(f't{i}', 0.05 * i, i % 3, ('lines', 'partial', 'tail')[i % 3], 100 * i) for i in range(6)])]
    return sc


def write_during_emission():
    """Function level, deterministic: something is written to the proxy WHILE flush() is emitting (another thread of the task,
    or a handler that prints).  It must come out with the next flush -- not be dropped, not be emitted twice."""
    from labtech.utils import LoggerFileProxy
    out = []
    box = {}

    def emit(msg):
        out.append(msg)
        if len(out) == 1:
            box['p'].write('LATE-WRITE-X')
    p = LoggerFileProxy(emit, '')
    box['p'] = p
    p.write('FIRST-X')
    p.flush()
    p.flush()
    text = '\n'.join(out)
    if text.count('FIRST-X') != 1 or text.count('LATE-WRITE-X') != 1:
        return (f'LoggerFileProxy: a write that arrives while flush() is emitting was delivered {text.count("LATE-WRITE-X")} times '
                f'(FIRST-X {text.count("FIRST-X")} times) after two flushes; expected once each')
    return None


def explore(tier):
    n = 1
    why = write_during_emission()
    if why:
        return dict(reproduced=True, level='function', summary=why), n
    for backend in ('fork', 'spawn'):
        for label, tasks in scenarios(tier):
            if backend == 'spawn' and tier == 'quick' and label in ('two-chatty-finish-together', 'failing-task-printed-first', 'last-finisher-slow'):
                continue
            n += 1
            why = check(backend, tasks, label)
            if why:
                return dict(reproduced=True, level='api', summary=why), n
    return dict(reproduced=False, level='api', cases=n), n


def main():
    ap = argparse.ArgumentParser()
    ap.add_argument('--obligation', default='')
    ap.add_argument('--repo', default='/repo')
    ap.add_argument('--prop', default='C19')
    ap.add_argument('--tier', default='quick')
    a = ap.parse_args()
    try:
        res, n = explore(a.tier)
    except Exception:
        res, n = dict(reproduced=False, error=traceback.format_exc()[-1500:]), 0
    if a.obligation:
        print(json.dumps(res, default=str))
    else:
        print(json.dumps([dict(name='c19:messages-exactly-once-before-return', bounded=True,
                               bound=f'{n} scenario x backend runs (fork, spawn): flush patterns, unterminated text, no trailing newline, failing task, a worker that dies hard after logging, an unpicklable %-argument, up to {1500 if a.tier == "quick" else 6000} records from the last finisher',
                               violation=bool(res.get('reproduced')), witness=[res] if res.get('reproduced') else [], error=res.get('error'))], default=str))
    return 1 if res.get('reproduced') else 0


if __name__ == '__main__':
    sys.exit(main())
