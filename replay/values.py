"""Bounded native stand-in / API-level replay for the value-tree properties C07, C09, C15.

Enumerates parameter trees over the supported grammar (scalars incl. edge floats/strings, plain and mixin enums, nested
tasks, lists/tuples, string-keyed dicts/frozendicts) and the unsupported one (sets, bytes, objects, non-string keys) up
to a stated depth, and evaluates the contracts natively against the real functions:

  C15  immutable_param_value == spec `norm`, TaskError iff not `normable`; frozen / hash / eq laws; pickle round trip
       keeps equality, cache_key, dependencies, post_init-derived attributes, and carries no results/context;
       what construction accepts is accepted by find_tasks_in_param and the serialiser
  C07  cache_key is a function of (module, qualname, parameters): stable across processes/hash seeds, pickling and
       metadata round trip; distinct tasks (type, value type, enum member, nested parameters) have distinct keys;
       every key is accepted by LocalStorage
  C09  cached_tasks returns exactly once a task equal to each cached task (same cache_key, stored result_meta),
       nothing for other types / prefix-named types / other cache formats; the returned tasks load
"""
from __future__ import annotations

import argparse
import itertools
import json
import logging
import os
import pickle
import subprocess
import sys
import tempfile
import traceback
from enum import Enum, IntEnum

import labtech
from frozendict import frozendict
from labtech.exceptions import TaskError
from labtech.tasks import find_tasks_in_param, get_direct_dependencies, immutable_param_value


class Color(Enum):
    RED = 1
    BLUE = 2


class Shade(Enum):
    RED = 1


class Level(IntEnum):
    LOW = 1
    HIGH = 2


class Name(str, Enum):
    A = 'a'


class Stage(Enum):          # a plain Enum whose VALUES are strings: its members are still not string keys
    TRAIN = 'train'
    TEST = 'test'


@labtech.task
class Leaf:
    x: object = 1

    def run(self):
        return ('leaf', repr(self.x))


@labtech.task
class Leaf2:          # same fields, other type
    x: object = 1

    def run(self):
        return ('leaf2', repr(self.x))


@labtech.task
class LeafX:          # name has Leaf as a prefix
    x: object = 1

    def run(self):
        return ('leafx', repr(self.x))


@labtech.task
class Holder:
    v: object = None
    w: object = None

    def post_init(self):
        object.__setattr__(self, 'derived', ('derived-from', repr(self.v)))

    def run(self):
        return ('holder', [d.result for d in find_tasks_in_param(self.v)])


@labtech.task
class Defaulted:      # parameters with non-trivial defaults: values that are == the default but of another type / sign must still count
    scale: object = 1.0
    flag: object = 0
    name: object = ''
    items: object = ()

    def run(self):
        return 0


@labtech.task
class Régression_Δ:      # a module-level task type whose class name is a non-ASCII identifier: its key must be accepted like any other
    x: object = 1

    def run(self):
        return ('non-ascii', repr(self.x))


@labtech.task(cache=None)
class NoCache:
    v: object = None

    def run(self):
        return 0


SCALARS = [None, True, False, 0, 1, -1, 2 ** 70, 0.0, -0.0, 1.0, 1.5, float('inf'), float('-inf'), 1e-320, '', 'a', '1', 'True', ' ', 'é', 'a/b', '_is_task',
           Color.RED, Color.BLUE, Shade.RED, Level.LOW, Name.A]
UNSUPPORTED = [b'x', {1, 2}, object(), 1j, bytearray(b'x')]
from fractions import Fraction      # noqa: E402
HASHABLE_UNSUPPORTED = [b'x', frozenset({1}), Fraction(1, 3), object(), 1j, range(3), frozendict({1: 'a'}), frozendict({('k',): 1})]


def hashable_unsupported_shapes():
    """Unsupported values that are hashable, placed where no list/dict forces a rebuild: directly, in tuples, in nested
    tuples, next to supported values, inside a frozendict value."""
    for u in HASHABLE_UNSUPPORTED:
        yield u
        yield (u,)
        yield (1, u)
        yield ((u,),)
        yield (u, (1, 2), 'a')
        yield (Leaf(1), u)
        yield frozendict({'k': u})
        yield (frozendict({'k': (u,)}),)
        yield [(u,)]
        yield {'k': (1, (u,))}


def spec_norm(v):
    """SPEC norm / normable, written independently of tasks.py; raises KeyError('unsupported') for non-normable."""
    if isinstance(v, (list, tuple)):
        return tuple(spec_norm(x) for x in v)
    if isinstance(v, (dict, frozendict)):
        out = {}
        for k, x in v.items():
            if not isinstance(k, str):
                raise KeyError('unsupported')
            out[k] = spec_norm(x)
        return frozendict(out)
    if v is None or isinstance(v, (str, bool, float, int, Enum)) or labtech.types.is_task(v):
        return v
    raise KeyError('unsupported')


def spec_tasks_in(v):
    if labtech.types.is_task(v):
        return [v]
    if isinstance(v, (list, tuple)):
        return [t for x in v for t in spec_tasks_in(x)]
    if isinstance(v, (dict, frozendict)):
        return [t for x in v.values() for t in spec_tasks_in(x)]
    return []


def trees(depth, leaves):
    if depth == 0:
        yield from leaves
        return
    sub = list(itertools.islice(trees(depth - 1, leaves), 60))
    yield from sub
    for a in sub[:14]:
        yield [a]
        yield (a,)
        yield {'k': a}
        yield frozendict({'k': a, 'j': 1})
    for a, b in itertools.islice(itertools.product(sub[:7], sub[3:9]), 30):
        yield [a, b]
        yield {'p': a, 'q': b}
    yield []
    yield {}
    yield ()


def same(a, b):
    """Structural identity including types (1 vs True vs 1.0 are different parameter values)."""
    if type(a) is not type(b):
        return False
    if isinstance(a, tuple):
        return len(a) == len(b) and all(same(x, y) for x, y in zip(a, b))
    if isinstance(a, frozendict):
        return list(a.keys()) == list(b.keys()) and all(same(a[k], b[k]) for k in a)
    if labtech.types.is_task(a):
        return all(same(getattr(a, f), getattr(b, f)) for f in [x.name for x in __import__('dataclasses').fields(a)])
    if isinstance(a, float):
        return repr(a) == repr(b)
    return a == b


def task_bearing_shapes():
    """Parameter values whose containers hold tasks in the shapes that stress dependency discovery: sibling containers of
    equal size, containers of containers, the same object twice, equal-but-distinct objects, deep chains."""
    L = lambda i: Leaf(i)      # noqa: E731
    shared = Leaf(99)
    yield {'train': {'x': L(1), 'y': L(2)}, 'test': {'x': L(3), 'y': L(4)}}
    yield [{'m': L(1)}, {'m': L(2)}, {'m': L(3)}]
    yield ({'a': L(1), 'b': L(2)}, {'a': L(3), 'b': L(4)}, {'a': L(5), 'b': L(6)})
    yield {'p': [L(1), L(2)], 'q': [L(3), L(4)], 'r': [L(5), L(6)]}
    yield [[L(1)], [L(2)], [L(3)], [L(4)]]
    yield [(L(1), L(2)), (L(3), L(4))]
    yield {'a': {'b': {'c': {'d': L(1)}}}, 'e': {'b': {'c': {'d': L(2)}}}}
    yield [shared, shared, {'k': shared}, (shared,)]
    yield [L(7), L(7), L(7)]
    yield {'k1': {'x': L(1)}, 'k2': {'x': L(1)}, 'k3': {'y': L(2)}}
    yield [{'x': L(1), 'y': 1}, {'x': 2, 'y': L(2)}, {'x': L(3), 'y': L(4)}]
    yield ({}, {'z': L(1)}, {}, {'z': L(2)})
    yield [Holder(v=[{'m': L(1)}, {'m': L(2)}]), {'h': Holder(v={'a': {'q': L(3)}, 'b': {'q': L(4)}})}]
    # tasks AFTER plain values in the same sequence / mapping (labels, seeds, weights first), at several depths
    yield ('train', L(1))
    yield [0, L(1), 1, L(2)]
    yield (1.5, [None, L(2)], True, L(3))
    yield {'name': 'x', 'pair': ('label', L(1)), 'grid': [[1, 2, L(2)], ['a', (3, L(3))]]}
    yield [Color.RED, L(1), '', L(2)]


def check_discovery():
    """find_tasks_in_param / get_direct_dependencies against the independent spec, and end to end: a task whose parameter has
    that shape can read the result of every task inside it."""
    import tempfile as _tf
    n = 0
    for v in task_bearing_shapes():
        n += 1
        got = immutable_param_value('p', v)
        found = find_tasks_in_param(got)
        want = spec_tasks_in(got)
        if [id(t) for t in found] != [id(t) for t in want]:
            return f'find_tasks_in_param finds {len(found)} task object(s) in {v!r}, the parameter holds {len(want)}: missing {[repr(t) for t in want if id(t) not in {id(x) for x in found}][:3]}', n
        h = Holder(v=v)
        deps = get_direct_dependencies(h)
        if sorted(map(id, deps)) != sorted({id(t) for t in spec_tasks_in(h.v)}):
            return f'get_direct_dependencies(Holder(v={v!r})) returns {len(deps)} object(s), the parameter holds {len({id(t) for t in spec_tasks_in(h.v)})} distinct task objects', n
        with _tf.TemporaryDirectory() as d:
            lab = labtech.Lab(storage=d, runner_backend='serial', continue_on_failure=False)
            try:
                res = lab.run_tasks([h], disable_progress=True, disable_top=True)
            except BaseException as ex:    # noqa
                return f'run_tasks([Holder(v={v!r})]) raised {type(ex).__name__}: {str(ex)[:200]} (a dependency was not finished / not handed over before the task ran)', n
            if h not in res:
                return f'run_tasks([Holder(v={v!r})]) returned no result for the task', n
    return None, n


def check_c15(tier):
    n = 0
    leaves = SCALARS + [Leaf(1), Leaf((1, 2)), Holder(v=[Leaf(1), Leaf(1)])]
    for v in itertools.chain(trees(2 if tier == 'quick' else 3, leaves + UNSUPPORTED + [{1: 'a'}, {('a',): 1}, [{2: 2}], {Stage.TRAIN: 80}, {'ok': {Stage.TEST: 1, 'test': 2}}, {None: 1}, {Color.RED: 1}, {1.5: 1}, {True: 1}]), hashable_unsupported_shapes()):
        n += 1
        try:
            want = spec_norm(v)
            ok = True
        except KeyError:
            ok = False
        try:
            got = immutable_param_value('p', v)
            raised = None
        except TaskError as ex:
            got, raised = None, ex
        except BaseException as ex:     # noqa
            return f'immutable_param_value({v!r}) raised {type(ex).__name__} (only TaskError is allowed)', n
        if ok and raised is not None:
            return f'immutable_param_value rejected the supported value {v!r}', n
        if not ok and raised is None:
            return f'immutable_param_value accepted the unsupported value {v!r} -> {got!r}', n
        if ok:
            if not same(got, want):
                return f'immutable_param_value({v!r}) = {got!r}, spec norm gives {want!r}', n
            try:
                hash(got)
            except TypeError:
                return f'normalised value {got!r} is not hashable', n
            found = find_tasks_in_param(got)
            if [id(t) for t in found] != [id(t) for t in spec_tasks_in(got)]:
                return f'find_tasks_in_param({got!r}) found {found!r}, spec tasks_in gives {spec_tasks_in(got)!r}', n
    # task-level laws
    for v in itertools.islice(trees(2, leaves), 150):
        n += 1
        try:
            spec_norm(v)
        except KeyError:
            continue
        try:
            t1, t2 = Holder(v=v), Holder(v=v)
        except BaseException as ex:     # noqa
            return f'constructing Holder(v={v!r}) raised {type(ex).__name__}: {str(ex)[:120]} (the value is supported: the task must be built)', n
        if not (t1 == t2 and hash(t1) == hash(t2)):
            return f'Holder(v={v!r}) built twice is not equal / hash-equal', n
        if t1 == Leaf(v) if False else False:
            pass
        try:
            t1.v = 5
            return 'task is not frozen', n
        except Exception:
            pass
        for proto in (2, pickle.HIGHEST_PROTOCOL):
            c = pickle.loads(pickle.dumps(t1, protocol=proto))
            if c != t1 or hash(c) != hash(t1) or c.cache_key != t1.cache_key:
                return f'pickle copy of Holder(v={v!r}) differs (eq/hash/cache_key)', n
            if [repr(d) for d in get_direct_dependencies(c)] != [repr(d) for d in get_direct_dependencies(t1)]:
                return f'pickle copy of Holder(v={v!r}) finds other dependencies', n
            if getattr(c, 'derived', None) != t1.derived:
                return f'pickle copy of Holder(v={v!r}) lost what post_init derives: derived={getattr(c, "derived", "<missing>")!r}, original {t1.derived!r}', n
            if getattr(c, '_results_map', None) is not None or getattr(c, 'context', None) is not None:
                return 'pickle copy carries results/context', n
        # a task that has been given a context / result_meta / results map (as the serial runner does to the caller's own
        # objects) is still copied as a VALUE: the copy is equal and carries none of that run-time state
        import threading
        t3 = Holder(v=v)
        t3.set_context({'dataset': [1, 2, 3], 'lock': threading.Lock()})
        t3._set_result_meta(labtech.types.ResultMeta(start=None, duration=None))
        t3._set_results_map({})
        for proto in (0, 2, pickle.HIGHEST_PROTOCOL):
            try:
                c3 = pickle.loads(pickle.dumps(t3, protocol=proto))
            except BaseException as ex:   # noqa
                return f'a task that was given a context can no longer be pickled (protocol {proto}): {type(ex).__name__}: {ex}', n
            if c3 != t3 or hash(c3) != hash(t3) or c3.cache_key != t3.cache_key:
                return f'pickle copy of a task with run-time state differs (eq/hash/cache_key), protocol {proto}', n
            if getattr(c3, 'context', None) is not None or getattr(c3, '_results_map', None) is not None or getattr(c3, 'result_meta', None) is not None:
                return (f'pickle copy (protocol {proto}) of a task that was given a context carries run-time state: context={getattr(c3, "context", None)!r}, '
                        f'result_meta={getattr(c3, "result_meta", None)!r}'), n
        deps = get_direct_dependencies(t1)
        if sorted(map(id, deps)) != sorted({id(t) for t in spec_tasks_in(t1.v)} | {id(t) for t in spec_tasks_in(t1.w)}):
            return f'get_direct_dependencies(Holder(v={v!r})) misses/duplicates instances', n
    if Leaf(1) == Leaf2(1):
        return 'tasks of different types compare equal', n
    # equality and hashing agree: tasks that compare equal (1 / 1.0 / True, 0.0 / -0.0, the same dict items in another order)
    # hash alike and find each other in dicts and sets, for cached and cache=None types alike
    for mk in (lambda v: Holder(v=v), lambda v: Leaf(v), lambda v: NoCache(v=v), lambda v: Holder(v=[v, (v,)]), lambda v: Holder(w={'k': v})):
        for group in ([1, 1.0, True], [0, 0.0, -0.0, False], [{'a': 1, 'b': 2}, {'b': 2, 'a': 1}], [(1, 2), [1, 2]], [frozendict({'x': 1.0}), {'x': 1}]):
            ts3 = []
            for v in group:
                try:
                    ts3.append(mk(v))
                except Exception:
                    pass
            for a3 in ts3:
                for b3 in ts3:
                    n += 1
                    if a3 == b3 and hash(a3) != hash(b3):
                        return f'{a3!r} == {b3!r} but their hashes differ', n
                    if a3 == b3 and ({a3: 1}.get(b3) != 1 or b3 not in {a3}):
                        return f'{a3!r} == {b3!r} but one does not find the other in a dict / set', n
    import replay.c06 as C6
    r6 = C6.explore('quick')
    if r6.get('reproduced'):
        return 'copies in worker processes: ' + r6.get('summary', ''), n
    why, m = check_discovery()
    n += m
    if why:
        return why, n
    return None, n


def keys_of(tasks):
    return [t.cache_key for t in tasks]


CHILD = r'''
import sys, json
sys.path.insert(0, sys.argv[1])
import replay.values as V
import itertools
ts = V.distinct_tasks()
print(json.dumps([t.cache_key for t in ts]))
'''


def distinct_tasks():
    """Pairwise distinct tasks (by type or by parameter tree including value types)."""
    vals = [None, True, False, 0, 1, 1.0, '1', 'a', '', Color.RED, Color.BLUE, Shade.RED, Level.LOW, Name.A, (), (1,), ((1,),), (1, 2), (2, 1),
            frozendict(), frozendict({'a': 1}), frozendict({'a': (1,)}), frozendict({'b': 1}), frozendict({'a': 1, 'b': 2}), frozendict({'b': 2, 'a': 1}),
            Leaf(1), Leaf(2), Leaf2(1), Leaf((1,)), (Leaf(1),), 0.0, -0.0, 2 ** 70, 'é']
    out = []
    for v in vals:
        out.append(Holder(v=v))
        out.append(Holder(w=v))
    out += [Leaf(v) for v in vals[:14]] + [Leaf2(v) for v in vals[:6]] + [LeafX(v) for v in vals[:6]]
    out += [Régression_Δ(v) for v in vals[:3]]
    out += [Defaulted()] + [Defaulted(scale=v) for v in (1, True, 1.5, None, '1.0')] + [Defaulted(flag=v) for v in (False, 0.0, -0.0, None, '0')] \
        + [Defaulted(name=v) for v in (None, (), 'x')] + [Defaulted(items=v) for v in ([1], {}, None, '')]
    return out


def check_reserved():
    """K-reserved: a dict parameter that uses the serialiser's marker keys reads as a nested task / enum."""
    a = Holder(v=Leaf(1))
    b = Holder(v={'_is_task': True, '__class__': f'{Leaf.__module__}.Leaf', 'x': 1})
    if a != b and a.cache_key == b.cache_key:
        return f'distinct tasks share the cache key {a.cache_key}: {a!r} and {b!r} (a dict parameter with the reserved key _is_task serialises exactly like a nested task)'
    c = Holder(v=Color.RED)
    d = Holder(v={'_is_enum': True, '__class__': f'{Color.__module__}.Color', 'name': 'RED'})
    if c != d and c.cache_key == d.cache_key:
        return f'distinct tasks share the cache key {c.cache_key}: {c!r} and {d!r} (reserved key _is_enum)'
    return None


def check_c07(tier):
    from labtech.storage import LocalStorage
    ts = distinct_tasks()
    ks = keys_of(ts)
    n = len(ts)
    seen = {}
    for t, k in zip(ts, ks):
        if k in seen and not same_task(seen[k], t):
            a, b = seen[k], t
            # Python equates 1/True/1.0, 0.0/-0.0 as VALUES; the property speaks of distinct parameter values incl. their type
            return f'distinct tasks share the cache key {k}: {a!r} and {b!r}', n
        seen.setdefault(k, t)
    # determinism: other process, other hash seed, after pickling, after normalisation
    here = os.path.dirname(os.path.dirname(os.path.abspath(__file__)))
    for seed in ('0', '12345'):
        env = dict(os.environ, PYTHONHASHSEED=seed, PYTHONPATH=os.pathsep.join([os.environ.get('PYTHONPATH', ''), here]))
        cp = subprocess.run([sys.executable, '-c', CHILD, here], capture_output=True, text=True, env=env, timeout=120)
        if cp.returncode != 0:
            return f'child interpreter failed: {cp.stderr[-300:]}', n
        if json.loads(cp.stdout.strip().splitlines()[-1]) != ks:
            return f'cache keys differ in a freshly started interpreter (PYTHONHASHSEED={seed})', n
    for t in ts:
        if pickle.loads(pickle.dumps(t)).cache_key != t.cache_key:
            return f'cache key changes through pickling: {t!r}', n
    if Holder(v=[1, {'a': [2]}]).cache_key != Holder(v=(1, frozendict({'a': (2,)}))).cache_key:
        return 'cache key differs between a list/dict parameter and its normalised form', n
    with tempfile.TemporaryDirectory() as d:
        st = LocalStorage(d)
        for t in ts:
            try:
                st.exists(t.cache_key)
            except Exception as ex:     # noqa
                return f'LocalStorage rejects the key of {t!r}: {ex}', n
    # reconstruction from cache metadata: every task stored under key k comes back (Lab.cached_tasks) as a task whose key is k
    logging.getLogger('labtech').setLevel(logging.CRITICAL)
    # (second list: dict parameters whose keys were NOT inserted in sorted order, at several depths and inside a nested task --
    #  in `ts` each of them is == to a sorted-order twin and would be de-duplicated by run_tasks)
    unsorted = [Holder(v={'b': 2, 'a': 1}), Leaf({'z': 1, 'a': {'y': 1, 'b': (2, {'k': 0, 'c': 1})}}), Holder(w=Leaf({'q': 1, 'c': 2})), Holder(v=({'n': 1, 'm': 2},))]
    for group in (ts, unsorted):
        with tempfile.TemporaryDirectory() as d:
            ts_ = group
            lab = labtech.Lab(storage=d, runner_backend='serial', continue_on_failure=True)
            lab.run_tasks(ts_, disable_progress=True, disable_top=True)
            stored = sorted(p_ for p_ in os.listdir(d) if os.path.isdir(os.path.join(d, p_)))
            back = lab.cached_tasks([Leaf, Leaf2, LeafX, Holder, Defaulted, Régression_Δ])
            back_keys = sorted({t.cache_key for t in back})
            missing = [k for k in stored if k not in back_keys]
            if missing:
                # which stored task is it?
                culprit = next((t for t in ts_ if t.cache_key == missing[0]), None)
                return (f'reconstruction from cache metadata changes the key: the entry stored under {missing[0]} ({culprit!r}) comes back from cached_tasks() '
                        f'as a task with another cache_key (keys that came back: {len(back_keys)} of {len(stored)} stored)'), n
            for t in back:
                if not lab.is_cached(t):
                    return f'a task reconstructed from cache metadata is not cached under its own key: {t!r} (key {t.cache_key})', n
    # the key a worker process stores under is the key the caller looks up, also when the task types live in the __main__
    # script and the first run uses the spawn backend (the worker re-imports the script under another module name)
    import replay.c06 as C6
    r = C6.explore('quick')
    if r.get('reproduced'):
        return 'keys across processes: ' + r.get('summary', ''), n
    return None, n


def check_c09(tier):
    logging.getLogger('labtech').setLevel(logging.CRITICAL)
    vals = [1, 'a', None, 1.5, True, Color.BLUE, Level.HIGH, Name.A, (1, 'b'), [Leaf(1), Leaf(2)], {'k': Leaf(3), 'j': [1, (2,)]}, Leaf((Color.RED,)), (),
            frozendict(), ((Leaf(1),),), {'deep': {'er': [Leaf({'x': Color.RED})]}}]
    tasks = [Holder(v=v) for v in vals] + [Leaf(1), Leaf('1'), LeafX(1), Leaf2(1)]
    # the same type nested in itself, with the nested task also cached on its own (one Serializer instance sees both)
    tasks += [Holder(v=Holder(v=1)), Holder(v=(Holder(v=None), Holder(v='a'))), Holder(v=Holder(v=Holder(v=1.5))), Holder(w=Holder(v=Color.BLUE))]
    n = len(tasks)
    with tempfile.TemporaryDirectory() as d:
        lab = labtech.Lab(storage=d, runner_backend='serial')
        lab.run_tasks(tasks, disable_progress=True, disable_top=True)
        metas = {t: t.result_meta for t in tasks}
        for ty in (Holder, Leaf, LeafX, Leaf2, NoCache):
            got = lab.cached_tasks([ty])
            want = [t for t in (set(tasks) | {d0 for t in tasks for d0 in spec_tasks_in(t.v if hasattr(t, 'v') else None)} | {x for t in tasks for x in all_nested(t)}) if type(t) is ty]
            for w in want:
                m = [g for g in got if g == w and same_task(g, w)]
                if len(m) != 1:
                    return f'cached_tasks([{ty.__name__}]) returned {len(m)} task(s) structurally equal to the cached {w!r} (got {[repr(g) for g in got if g.cache_key == w.cache_key]})', n
                if m[0].cache_key != w.cache_key:
                    return f'reconstructed {w!r} has another cache_key', n
                if w in metas and m[0].result_meta != metas[w]:
                    return f'reconstructed {w!r} carries result_meta {m[0].result_meta}, stored {metas[w]}', n
            for g in got:
                if type(g) is not ty:
                    return f'cached_tasks([{ty.__name__}]) returned a task of type {type(g).__name__}', n
            if len(got) != len({w.cache_key for w in want}):
                return f'cached_tasks([{ty.__name__}]) returned {len(got)} tasks for {len({w.cache_key for w in want})} cached entries', n
        # a task type with the same class name defined in another module shares the key prefix but is another type
        import replay.values_twin as TW
        twin = TW.Leaf(1234)
        lab.run_tasks([twin], disable_progress=True, disable_top=True)
        for ty, other in ((Leaf, TW.Leaf), (TW.Leaf, Leaf)):
            for g in lab.cached_tasks([ty]):
                if type(g) is not ty:
                    return f'cached_tasks([{ty.__module__}.{ty.__name__}]) returned a task of type {type(g).__module__}.{type(g).__name__}', n
        if [g for g in lab.cached_tasks([TW.Leaf])] != [twin] or twin in lab.cached_tasks([Leaf]):
            return 'the entry of the same-named task type from another module is not listed exactly for its own type', n
        # several types in one query, in both orders, and a type listed twice: every entry still exactly once
        per_type = {ty: len(lab.cached_tasks([ty])) for ty in (Holder, Leaf, LeafX, Leaf2)}
        for query in ([Holder, Leaf, LeafX, Leaf2], [Leaf2, LeafX, Leaf, Holder], [Leaf, Leaf], [LeafX, Leaf, LeafX], [Holder, Holder, Leaf]):
            got = lab.cached_tasks(query)
            want_n = sum(per_type[ty] for ty in set(query))
            keys = [g.cache_key for g in got]
            if len(got) != want_n or len(set(keys)) != len(keys):
                dup = sorted({k for k in keys if keys.count(k) > 1})
                return f'cached_tasks({[t.__name__ for t in query]}) returned {len(got)} tasks for {want_n} entries (keys listed more than once: {dup[:2]})', n
        # tasks that are == but serialise differently (1 / 1.0, a dict with its keys in another order) are stored by separate calls
        # under their own keys; each comes back as itself, with the key of the entry it was rebuilt from
        va, vb = Holder(w=(1, {'a': 1, 'b': 2})), Holder(w=(1.0, {'b': 2, 'a': 1}))
        lab.run_tasks([va], disable_progress=True, disable_top=True)
        lab.run_tasks([vb], disable_progress=True, disable_top=True)
        if va.cache_key != vb.cache_key:            # (that they differ is C07; here: what comes back)
            back = [g for g in lab.cached_tasks([Holder]) if g == va]
            for w in (va, vb):
                m = [g for g in back if same_task(g, w)]
                if len(m) != 1 or m[0].cache_key != w.cache_key:
                    return (f'two == tasks that serialise differently were stored by separate calls; cached_tasks() returned {len(m)} task(s) structurally equal to {w!r} '
                            f'with keys {[g.cache_key[-8:] for g in m]} (its entry is ...{w.cache_key[-8:]})'), n
        else:
            return f'two tasks built from different parameter trees ({va!r}, {vb!r}) carry the same cache_key, so the second call loaded the first one\'s entry', n
        # running the returned tasks loads the stored results
        got = lab.cached_tasks([Holder, Leaf])
        res = lab.run_tasks(got, disable_progress=True, disable_top=True)
        for g in got:
            orig = [t for t in tasks if t.cache_key == g.cache_key]
            if orig and g not in res:
                return f'running the reconstructed {g!r} did not load a result', n
    # entries written by WORKER processes are listed by the same Lab object that listed the storage before they existed
    with tempfile.TemporaryDirectory() as d2:
        lab_f = labtech.Lab(storage=d2, runner_backend='fork', max_workers=2)
        first = lab_f.cached_tasks([Leaf, Holder])
        ws = [Leaf(7001), Holder(v=Leaf(7002))]
        lab_f.run_tasks(ws, disable_progress=True, disable_top=True)
        second = lab_f.cached_tasks([Leaf, Holder])
        want_keys = sorted({ws[0].cache_key, ws[1].cache_key, Leaf(7002).cache_key})
        if first or sorted(g.cache_key for g in second) != want_keys:
            return (f'cached_tasks() listed {len(first)} tasks in an empty storage and {len(second)} of the {len(want_keys)} entries that worker processes '
                    f'(fork backend) wrote afterwards through the same Lab object'), n
    return None, n


def all_nested(t):
    out = []
    for f in __import__('dataclasses').fields(t):
        for x in spec_tasks_in(getattr(t, f.name)):
            out.append(x)
            out += all_nested(x)
    return out


def same_task(a, b):
    return type(a) is type(b) and all(same(getattr(a, f.name), getattr(b, f.name)) for f in __import__('dataclasses').fields(a))


def main():
    ap = argparse.ArgumentParser()
    ap.add_argument('--obligation', default='')
    ap.add_argument('--repo', default='/repo')
    ap.add_argument('--prop', default='C15')
    ap.add_argument('--tier', default='quick')
    a = ap.parse_args()
    import replay.values as V          # classes must live in an importable module (their module name is part of the cache key)
    fn = {'C15': V.check_c15, 'C07': V.check_c07, 'C09': V.check_c09, 'discovery': lambda tier: V.check_discovery()}[a.prop]
    try:
        if 'dict-never-reads-as-task' in a.obligation:
            why, n = V.check_reserved(), 2
        else:
            why, n = fn(a.tier)
        res = dict(reproduced=bool(why), level='api', summary=why or '', cases=n)
    except Exception:
        res = dict(reproduced=False, error=traceback.format_exc()[-1800:])
    if a.obligation:
        print(json.dumps(res, default=str))
    else:
        print(json.dumps([dict(name=f'values:{a.prop}', bounded=True, bound=f'{res.get("cases")} parameter trees / tasks (depth <= {2 if a.tier == "quick" else 3})',
                               violation=bool(res.get('reproduced')), witness=[res] if res.get('reproduced') else [], error=res.get('error'))], default=str))
    return 1 if res.get('reproduced') else 0


if __name__ == '__main__':
    sys.exit(main())
