"""Native replay for C16: the environment a task runs in (context filtering, process model per backend)."""
from __future__ import annotations

import argparse
import json
import logging
import os
import sys
import tempfile
import traceback


def run_backend(kind, workers=2):
    import labtech
    import replay.universe as U
    logging.getLogger('labtech').setLevel(logging.CRITICAL)
    U.MARK = 42                                   # parent-side mutation after import
    ctx = {'shared': 1, 'a': 'ctx-a', 'b': 'ctx-b', 'other': object}
    tasks = [U.EnvProbe('a'), U.EnvProbe('b')]
    with tempfile.TemporaryDirectory() as d:
        lab = labtech.Lab(storage=d, runner_backend=kind, max_workers=workers, context=ctx)
        res = lab.run_tasks(tasks, disable_progress=True, disable_top=True)
        # a re-execution of already cached tasks must see the same environment
        ctasks = [U.K2('a'), U.K2('b')]
        lab.run_tasks(ctasks, disable_progress=True, disable_top=True)
        res2 = lab.run_tasks(ctasks, bust_cache=True, disable_progress=True, disable_top=True)
        for t in ctasks:
            want_ctx = {'shared': 1, t.name: ctx[t.name], 'applied': 1}
            if t not in res2 or res2[t]['context'] != want_ctx:
                return f'{kind}: bust_cache re-run of cached {t}: context inside run() is {res2.get(t, {}).get("context") if t in res2 else "<task failed>"}, expected {want_ctx}'
    for t in tasks:
        r = res[t]
        want_ctx = {'shared': 1, t.name: ctx[t.name], 'applied': 1}
        if r['context'] != want_ctx:
            return f'{kind}: context inside run() is {r["context"]}, expected filter_context(lab.context) = {want_ctx}'
        if kind == 'serial':
            if r['pid'] != os.getpid() or not r['main_thread']:
                return f'serial: task ran in pid {r["pid"]} main_thread={r["main_thread"]}, caller is {os.getpid()}'
        else:
            if r['pid'] == os.getpid() or r['ppid'] != os.getpid():
                return f'{kind}: task did not run in its own child process of the caller (pid={r["pid"]}, ppid={r["ppid"]}, caller={os.getpid()})'
            if kind == 'fork' and r['mark'] != 42:
                return f'fork: child does not inherit the caller\'s memory (module global is {r["mark"]}, caller set 42)'
            if kind == 'spawn' and r['mark'] != 0:
                return f'spawn: child shares the caller\'s memory: module global mutated by the caller is {r["mark"]} in the child (a freshly started interpreter would see 0)'
    if len({res[t]['pid'] for t in tasks}) != len(tasks) and kind != 'serial':
        return f'{kind}: two tasks ran in the same process'
    return None


def changed_context_same_objects():
    """The SAME task objects executed again under a different Lab context (and under another backend) must see the new
    context: whatever an earlier in-process run left on the objects does not count."""
    import labtech
    from replay.universe import X
    logging.getLogger('labtech').setLevel(logging.CRITICAL)
    for backends in (['serial', 'serial'], ['serial', 'fork'], ['fork', 'serial'], ['serial', 'spawn']):
        a = X('a')
        top = X('top', (a,))
        for k, backend in enumerate(backends):
            ctx = {'gen': k + 1}
            with tempfile.TemporaryDirectory() as d:
                lab = labtech.Lab(storage=d, runner_backend=backend, context=ctx, max_workers=2)
                res = lab.run_tasks([top], disable_progress=True, disable_top=True)
            want = ('top', k + 1, (('a', k + 1, ()),))
            if res.get(top) != want:
                return f'{"->".join(backends)}: call {k + 1} ran with Lab context {ctx} but the tasks computed {res.get(top)!r} (expected {want!r}): a context from an earlier run was used'
        # a context the user attached by hand before the run does not survive either
        b = X('b')
        b.set_context({'gen': 'stale'})
        with tempfile.TemporaryDirectory() as d:
            lab = labtech.Lab(storage=d, runner_backend=backends[0], context={'gen': 7}, max_workers=2)
            res = lab.run_tasks([b], disable_progress=True, disable_top=True)
        if res.get(b) != ('b', 7, ()):
            return f'{backends[0]}: a task object that already carried a context ran with it instead of filter_context(lab.context): {res.get(b)!r}'
    return None


def context_leak():
    """The context must not influence cache keys or stored entries (even when a result contains task objects)."""
    import glob
    import labtech
    import replay.universe as U
    logging.getLogger('labtech').setLevel(logging.CRITICAL)
    blobs = []
    for marker in ('CTX-MARKER-AAAA', 'CTX-MARKER-BBBB'):
        with tempfile.TemporaryDirectory() as d:
            lab = labtech.Lab(storage=d, runner_backend='serial', context={'shared': marker, 's': marker})
            t = U.Selfie('s')
            lab.run_tasks([t], disable_progress=True, disable_top=True)
            files = sorted(glob.glob(os.path.join(d, '*', '*')))
            data = {os.path.relpath(f, d): open(f, 'rb').read() for f in files if not f.endswith('metadata.json')}
            for f, b in data.items():
                if marker.encode() in b:
                    return f'the Lab context leaked into the stored entry {f} (a value of the context is inside the pickled result)'
            blobs.append((sorted(data), [data[k] for k in sorted(data)]))
    if blobs[0][0] != blobs[1][0]:
        return 'cache keys differ between two Labs that differ only in their context'
    if blobs[0][1] != blobs[1][1]:
        return 'stored entries differ between two Labs that differ only in their context'
    return None


def main():
    ap = argparse.ArgumentParser()
    ap.add_argument('--obligation', default='')
    ap.add_argument('--repo', default='/repo')
    ap.add_argument('--prop', default='C16')
    ap.add_argument('--tier', default='quick')
    a = ap.parse_args()
    res = dict(reproduced=False, level='api')
    try:
        for kind, workers in (('spawn', 2), ('fork', 2), ('serial', 2), ('fork', 1), ('spawn', 1), ('fork', None)):
            why = run_backend(kind, workers)
            if why:
                res = dict(reproduced=True, level='api', backend=kind, summary=f'max_workers={workers}: ' + why)
                break
        if not res.get('reproduced'):
            why = context_leak() or changed_context_same_objects()
            if why:
                res = dict(reproduced=True, level='api', summary=why)
    except Exception:
        res = dict(reproduced=False, error=traceback.format_exc()[-1500:])
    if not a.obligation:
        print(json.dumps([dict(name='c16:environment-probe', bounded=True, bound='3 backends x max_workers in {1, 2, None} x 2 probe tasks (narrowing AND transforming, non-idempotent filter_context) + bust_cache re-run of cached probes; context-leak probe; 4 two-call histories over the same task objects with a changed Lab context',
                               violation=bool(res.get('reproduced')), witness=[res] if res.get('reproduced') else [])], default=str))
    else:
        print(json.dumps(res, default=str))
    return 1 if res.get('reproduced') else 0


if __name__ == '__main__':
    sys.exit(main())
