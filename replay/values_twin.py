"""A second module that defines a task type with the SAME class name as replay.values.Leaf (keys carry only the class name)."""
import labtech


@labtech.task
class Leaf:
    x: object = None

    def run(self):
        return ('twin-leaf', self.x)
