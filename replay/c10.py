"""Native replay for C10 obligations (failure isolation) through the public API.

Scenarios: small DAGs in which some tasks raise an Exception, raise SystemExit, or (process backends) die;
oracle: with continue_on_failure=True run_tasks returns normally with exactly the requested tasks that the
reference evaluator says succeed, each with its reference value; with False it raises LabError caused by the
task's own exception.
"""
from __future__ import annotations

import argparse
import json
import logging
import sys
import tempfile
import traceback


def scenarios():
    from replay.universe import A
    out = []
    for mode in ('fail', 'exit'):
        bad = A('bad', (), mode)
        ok = A('ok', (), 'ok')
        dep = A('dep', (bad, ok), 'ok')          # reads a failed dependency -> must fail, must not be returned
        ign = A('ign', (bad, ok), 'ignore')      # does not read its dependencies -> succeeds
        out += [
            (f'{mode}: requested [bad]', [bad]),
            (f'{mode}: requested [ok, bad]', [ok, bad]),
            (f'{mode}: requested [dep]', [dep]),
            (f'{mode}: requested [ign]', [ign]),
            (f'{mode}: requested [ok, dep, ign]', [ok, dep, ign]),
        ]
    return out


def check(kind, continue_on_failure):
    import labtech
    from labtech.exceptions import LabError
    from replay.universe import Boom, expected_value
    logging.getLogger('labtech').setLevel(logging.CRITICAL)
    for name, tasks in scenarios():
        with tempfile.TemporaryDirectory() as d:
            lab = labtech.Lab(storage=d, continue_on_failure=continue_on_failure, runner_backend=kind, max_workers=2)
            try:
                res = lab.run_tasks(tasks, disable_progress=True, disable_top=True)
                raised = None
            except BaseException as ex:     # noqa
                res, raised = None, ex
        want = {t: expected_value(t) for t in tasks if expected_value(t) is not None}
        anyfail = any(expected_value(t) is None for t in labtech_closure(tasks))
        if continue_on_failure:
            if raised is not None:
                return dict(reproduced=True, level='api', backend=kind, scenario=name,
                            summary=f'[{name}] continue_on_failure=True but run_tasks raised {type(raised).__name__}: {raised}')
            if res != want:
                return dict(reproduced=True, level='api', backend=kind, scenario=name,
                            summary=f'[{name}] run_tasks returned {sorted(map(str, res))}, reference says {sorted(map(str, want))}')
        else:
            if anyfail:
                if not isinstance(raised, LabError):
                    return dict(reproduced=True, level='api', backend=kind, scenario=name,
                                summary=f'[{name}] continue_on_failure=False with a failing task: expected LabError, got {type(raised).__name__ if raised else "normal return"}')
                if raised.__cause__ is None:
                    return dict(reproduced=True, level='api', backend=kind, scenario=name, summary='LabError without a cause')
    return dict(reproduced=False, level='api', backend=kind, scenarios=len(scenarios()))


def labtech_closure(tasks):
    from replay.universe import closure
    return closure(tasks)


def main():
    ap = argparse.ArgumentParser()
    ap.add_argument('--obligation', default='')
    ap.add_argument('--repo', default='/repo')
    a = ap.parse_args()
    res = dict(reproduced=False)
    try:
        kinds = ['serial']
        if 'Spawn' in a.obligation or 'process' in a.obligation:
            kinds = ['spawn', 'fork']
        for kind in kinds:
            for cof in (True, False):
                res = check(kind, cof)
                if res['reproduced']:
                    break
            if res['reproduced']:
                break
    except Exception:
        res = dict(reproduced=False, error=traceback.format_exc()[-1500:])
    print(json.dumps(res, default=str))
    return 1 if res.get('reproduced') else 0


if __name__ == '__main__':
    sys.exit(main())
