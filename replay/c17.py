"""Native replay for C17 obligations: retention/release of in-memory results.

API level: run small DAGs (with failing dependencies) through Lab.run_tasks with a pass-through spy around the
real runner; a witness is a run that returns normally while the runner still holds results, or a release batch
after which a result with no unfinished direct dependent is still held / a still-needed one is gone.
Function level: call the real remove_results on a real runner object with a crafted map.
"""
from __future__ import annotations

import argparse
import json
import logging
import sys
import tempfile


def api_level(kind='serial'):
    import labtech
    from replay.spy import SpyBackend
    from replay.universe import closure, scenarios_failures
    logging.getLogger('labtech').setLevel(logging.CRITICAL)
    for name, tasks in scenarios_failures():
        spy = SpyBackend(kind)
        with tempfile.TemporaryDirectory() as d:
            lab = labtech.Lab(storage=d, continue_on_failure=True, runner_backend=spy, max_workers=2)
            try:
                lab.run_tasks(tasks, disable_progress=True, disable_top=True)
                returned = True
            except KeyError:
                returned = False           # separate defect (C10): failed requested task; not what is replayed here
            except Exception as ex:
                returned = False
        log = spy.log
        allt = closure(tasks)
        finished = set()
        ok = set()
        for ev in log:
            if ev[0] == 'yield':
                finished.add(ev[1])
                if ev[2]:
                    ok.add(ev[1])
            if ev[0] == 'remove_results':
                held = ev[2]
                for dtask in ok:
                    needed = any((dtask in t.deps) and (t not in finished) for t in allt)
                    if (dtask in held) and not needed:
                        return dict(reproduced=True, level='api', scenario=name, backend=kind,
                                    summary=f'after release batch {[str(t) for t in ev[1]]} the result of {dtask} is still held although no direct dependent is unfinished',
                                    held=[str(t) for t in held])
                    if (dtask not in held) and needed:
                        return dict(reproduced=True, level='api', scenario=name, backend=kind,
                                    summary=f'result of {dtask} released while a direct dependent is unfinished')
            if ev[0] == 'close' and returned and ev[1]:
                return dict(reproduced=True, level='api', scenario=name, backend=kind,
                            summary=f'run_tasks returned normally but the runner still holds results of {[str(t) for t in ev[1]]}')
    return dict(reproduced=False, level='api', scenarios=len(scenarios_failures()))


def function_level(cls_name):
    from replay.universe import A
    if cls_name == 'SerialRunner':
        from labtech.runners.serial import SerialRunner
        r = SerialRunner(context={}, storage=None, max_workers=None)
    else:
        from labtech.runners.process import ProcessRunner
        r = ProcessRunner.__new__(ProcessRunner)   # no Manager/executor: only the field remove_results touches
    t0, t1, t2 = A('t0'), A('t1'), A('t2')
    r.results_map = {t0: 'r0', t2: 'r2'}
    before = dict(r.results_map)
    r.remove_results([t1, t0])                    # the model: a task without a result is met first
    bad = [str(k) for k in (t1, t0) if k in r.results_map]
    kept_ok = all(r.results_map.get(k) == v for k, v in before.items() if k not in (t1, t0))
    return dict(reproduced=bool(bad) or not kept_ok, level='function',
                summary=f'remove_results([t1 (no result), t0]) left {bad} in results_map' if bad else 'post-condition holds natively')


def requested_and_needed(kind='serial'):
    """A task that is requested AND is a direct dependency of another requested task: capturing its result for the
    caller must not release it before the dependent has run (and the dependent must get the right value)."""
    import labtech
    from replay.universe import A, expected_value
    logging.getLogger('labtech').setLevel(logging.CRITICAL)
    load = A('load')
    clean = A('clean', (load,))
    report = A('report', (clean, load))
    tasks = [load, clean, report]
    with tempfile.TemporaryDirectory() as d:
        lab = labtech.Lab(storage=d, continue_on_failure=True, runner_backend=kind, max_workers=2)
        try:
            res = lab.run_tasks(tasks, disable_progress=True, disable_top=True)
        except BaseException as ex:   # noqa
            return dict(reproduced=True, level='api', backend=kind, summary=f'run_tasks([load, clean(load), report(clean, load)]) raised {type(ex).__name__}: {str(ex)[:150]}')
    for t in tasks:
        if res.get(t) != expected_value(t):
            return dict(reproduced=True, level='api', backend=kind,
                        summary=f'{kind}: every stage of a pipeline was requested; {t} came back as {res.get(t)!r} instead of {expected_value(t)!r} '
                                f'(the result of a requested task was released before its dependent ran)')
    return dict(reproduced=False)


def main():
    ap = argparse.ArgumentParser()
    ap.add_argument('--obligation', default='')
    ap.add_argument('--repo', default='/repo')
    a = ap.parse_args()
    res = dict(reproduced=False)
    try:
        if 'get_result' in a.obligation:
            for kind in ('serial', 'fork'):
                res = requested_and_needed(kind)
                if res.get('reproduced'):
                    break
        elif 'remove_results' in a.obligation or 'complete_task' in a.obligation or 'run' in a.obligation or not a.obligation:
            kind = 'fork' if 'ProcessRunner' in a.obligation else 'serial'
            res = api_level(kind)
            if not res['reproduced'] and 'remove_results' in a.obligation:
                fl = function_level('SerialRunner' if 'SerialRunner' in a.obligation else 'ProcessRunner')
                res = dict(res, function_level=fl, summary='API-level search found no failing input; function-level: ' + fl['summary'])
    except Exception as ex:
        import traceback
        res = dict(reproduced=False, error=traceback.format_exc()[-1500:])
    print(json.dumps(res, default=str))
    return 1 if res.get('reproduced') else 0


if __name__ == '__main__':
    sys.exit(main())
