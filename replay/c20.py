"""Native harness for C20: the task diagram, parsed back into class blocks and arrows, against an independent oracle.

BOUNDED (never counted as proved).  Two uses:
  * stand-in for the text renderer (diagram_task_type / diagram_task_relationship / diagram_task_structure /
    format_type), which is outside the translated fragment;
  * replay of a refuted obligation of TaskStructure.build / add_relationship / add_task_type: the same search,
    looking for an input whose diagram differs from the oracle.

Task universe: five task types with scalar, single-task and collection-of-task parameters (list, tuple, dict, nested
list-in-dict), graphs up to nesting depth 3, heterogeneous instances of one type (None vs task vs collection in the
same parameter), the same dependency object shared by several parents, and both orders of every input list.

Oracle (written from the property statement, not from diagram.py): reachability by an own recursive walk over
`dataclasses.fields` and plain containers; a type per reachable object; an arrow per (type(t), field, type(s)) with s
anywhere inside t.<field>; many iff for at least one such t the field value is not itself a task.
"""
from __future__ import annotations

import argparse
import itertools
import json
import os
import re
import subprocess
import sys
import traceback
from dataclasses import fields
from typing import Any

import labtech
from labtech.types import is_task


@labtech.task
class Leaf:
    x: int

    def run(self) -> int:
        return self.x


@labtech.task
class Other:
    y: str
    z: float = 0.5

    def run(self) -> str:
        return self.y


@labtech.task
class Node:
    payload: Any            # None, a task, or a collection of tasks
    n: int = 0

    def run(self):
        return self.n


@labtech.task
class Coll:
    items: Any              # list / tuple / dict / nested
    label: str = 'c'

    def run(self) -> dict[str, int]:
        return {}


@labtech.task
class Root:
    a: Any
    b: Any = None

    def run(self) -> list[int]:
        return []


TYPES = [Leaf, Other, Node, Coll, Root]


# ------------------------------------------------------------------ oracle
def inside(v):
    """Task objects anywhere inside a parameter value (own walk; no labtech code)."""
    if is_task(v):
        return [v]
    out = []
    if isinstance(v, (list, tuple)):
        for x in v:
            out += inside(x)
    elif hasattr(v, 'items') and hasattr(v, 'keys'):
        for x in v.values():
            out += inside(x)
    return out


def oracle(tasks):
    seen, order, stack = set(), [], list(tasks)
    while stack:
        t = stack.pop()
        if id(t) in seen:
            continue
        seen.add(id(t))
        order.append(t)
        for f in fields(t):
            stack += inside(getattr(t, f.name))
    types = {type(t).__name__ for t in order}
    edges = {}
    for t in order:
        for f in fields(t):
            v = getattr(t, f.name)
            for s in inside(v):
                k = (type(t).__name__, f.name, type(s).__name__)
                edges[k] = edges.get(k, False) or (not is_task(v))
    return types, edges


# ------------------------------------------------------------------ parser of the emitted text
ARROW = re.compile(r'^(\w+) <-- (?:("many") )?(\w+): (\w+)$')
MEMBER = re.compile(r'^(\w+) : (.*)$')


def parse(text):
    lines = text.split('\n')
    if lines[0] != 'classDiagram' or not lines[1].strip().startswith('direction '):
        raise ValueError('header')
    classes, members, arrows = [], {}, []
    for ln in lines[2:]:
        s = ln.strip()
        if not s:
            continue
        if s.startswith('class '):
            classes.append(s[6:])
            continue
        m = ARROW.match(s)
        if m:
            arrows.append((m.group(1), m.group(4), m.group(3), m.group(2) is not None))
            continue
        m = MEMBER.match(s)
        if m:
            members.setdefault(m.group(1), []).append(m.group(2))
            continue
        raise ValueError(f'unparsed line {s!r}')
    return classes, members, arrows


def check_one(tasks):
    from labtech.diagram import build_task_diagram
    text = build_task_diagram(tasks)
    if build_task_diagram(list(tasks)) != text:
        return 'two calls on the same input returned different text'
    classes, members, arrows = parse(text)
    types, edges = oracle(tasks)
    if sorted(classes) != sorted(types):
        missing = sorted(types - set(classes))
        extra = sorted(set(classes) - types)
        dup = sorted({c for c in classes if classes.count(c) > 1})
        return f'class blocks {sorted(classes)} but reachable types {sorted(types)} (missing {missing}, unexpected {extra}, repeated {dup})'
    by_name = {t.__name__: t for t in TYPES}
    for c in classes:
        ms = members.get(c, [])
        want = [f.name for f in fields(by_name[c])]
        got = [m.split(' ')[-1] for m in ms if not m.startswith('run()')]
        if got != want:
            return f'class {c} lists parameters {got}, its parameters are {want}'
        runs = [m for m in ms if m.startswith('run()')]
        if len(runs) != 1:
            return f'class {c} has {len(runs)} run() lines'
        import typing
        rt = typing.get_type_hints(by_name[c].run).get('return')
        if rt is None:
            if runs[0] != 'run()':
                return f'class {c}: run signature {runs[0]!r} for an unannotated run()'
        else:
            shown = runs[0][len('run() '):]
            base = getattr(typing.get_origin(rt), '__name__', None) or getattr(rt, '__name__', str(rt))
            if not shown.startswith(base):
                return f'class {c}: run signature {runs[0]!r} does not show the return type {rt}'
    got_edges = {}
    for a, p, b, many in arrows:
        k = (a, p, b)
        if k in got_edges:
            return f'arrow {k} emitted more than once'
        got_edges[k] = many
    if set(got_edges) != set(edges):
        return (f'arrows {sorted(got_edges)} but occurring (dependent, parameter, dependency) combinations {sorted(edges)} '
                f'(missing {sorted(set(edges) - set(got_edges))}, unexpected {sorted(set(got_edges) - set(edges))})')
    for k, many in edges.items():
        if got_edges[k] != many:
            return f'arrow {k} is {"" if got_edges[k] else "not "}marked many, but the parameter {"holds" if many else "never holds"} a collection in some task'
    return None


# ------------------------------------------------------------------ inputs
def universe(tier):
    leaves = [Leaf(1), Leaf(2), Other('a')]
    d1 = []                                   # depth-1 holders
    for l in leaves:
        d1 += [Node(l), Node([l]), Node((l, leaves[0])), Node({'k': l}), Node({'k': [l, leaves[1]]})]
    d1 += [Node(None), Node(3), Node([]), Node({}), Coll([leaves[0], leaves[2]]), Coll({'a': leaves[0], 'b': [leaves[2]]}),
           Coll(()), Coll([[leaves[0]], [leaves[1], leaves[2]]])]
    d2 = []
    picks = d1 if tier == 'thorough' else d1[::2] + [d1[1], d1[15], d1[16]]
    for h in picks:
        d2 += [Root(h), Root([h, Node(None)]), Root(Node(None), [h]), Root({'m': [Node(None), h]}), Root(h, h), Root(a=leaves[0], b=(h,))]
    d3 = [Root(Coll([Root(Node(Leaf(7)))])), Root([Node(None, 1), Node(Coll([Other('q')]), 2)]),
          Root(Node(Leaf(1)), Node([Leaf(1)])), Root(Node([Leaf(1)]), Node(Leaf(1))),
          Coll([Node(None), Node(Other('z'))]), Coll([Node(Other('z')), Node(None)]),
          Root(Root(Root(Leaf(5)))), Root([Root([Root([Leaf(5), Other('o')])])])]
    singles = leaves + d1 + d2 + d3
    inputs = [[t] for t in singles]
    inputs.append([])
    pool = d1 + d3 + (d2 if tier == 'thorough' else d2[::5])
    for a, b in itertools.combinations(pool, 2):
        inputs.append([a, b])
        inputs.append([b, a])
    if tier == 'thorough':
        for a, b, c in itertools.combinations(d1[::3] + d3, 3):
            inputs.append([a, b, c])
            inputs.append([c, b, a])
    shared = Leaf(9)
    inputs += [[Node(shared), Node([shared])], [Node([shared]), Node(shared)], [Root(shared, [shared])], [Root([shared], shared)],
               [shared, shared], [Node(shared), shared]]
    return inputs


def explore(tier):
    n = 0
    for tasks in universe(tier):
        n += 1
        try:
            why = check_one(tasks)
        except Exception as ex:   # noqa
            why = f'build_task_diagram/parse raised {type(ex).__name__}: {ex}'
        if why:
            return dict(reproduced=True, level='api', input=repr(tasks), summary=f'build_task_diagram({tasks!r}): {why}'), n
    return dict(reproduced=False, level='api', cases=n), n


def determinism_across_interpreters():
    """The same input in two fresh interpreters with different hash seeds gives the same text."""
    code = ('import replay.c20 as M, hashlib\n'
            'from labtech.diagram import build_task_diagram\n'
            'h = hashlib.sha1()\n'
            'for tasks in M.universe("quick")[:400]:\n'
            '    h.update(build_task_diagram(tasks).encode())\n'
            'print(h.hexdigest())\n')
    outs = []
    for seed in ('1', '2'):
        env = dict(os.environ, PYTHONHASHSEED=seed)
        outs.append(subprocess.run([sys.executable, '-c', code], capture_output=True, text=True, env=env, timeout=600).stdout.strip())
    if not outs[0] or outs[0] != outs[1]:
        return f'diagram text differs between two interpreters with different hash seeds ({outs})'
    return None


def main():
    ap = argparse.ArgumentParser()
    ap.add_argument('--obligation', default='')
    ap.add_argument('--repo', default='/repo')
    ap.add_argument('--prop', default='C20')
    ap.add_argument('--tier', default='quick')
    a = ap.parse_args()
    try:
        res, n = explore(a.tier)
        if not res['reproduced']:
            why = determinism_across_interpreters()
            if why:
                res = dict(reproduced=True, level='api', summary=why)
    except Exception:
        res = dict(reproduced=False, error=traceback.format_exc()[-1500:])
    if a.obligation:
        print(json.dumps(res, default=str))
    else:
        print(json.dumps([dict(name='c20:diagram-parsed-back-vs-oracle', bounded=True,
                               bound=f'{res.get("cases", "?")} input lists over 5 task types, nesting depth <= 3, both orders; 2 interpreters with different hash seeds',
                               violation=bool(res.get('reproduced')), witness=[res] if res.get('reproduced') else [], error=res.get('error'))], default=str))
    return 1 if res.get('reproduced') else 0


if __name__ == '__main__':
    sys.exit(main())
