"""Native replay / bounded stand-in for C18: LocalStorage never touches anything outside one direct child of its root.

A sandbox holds the storage directory, outside canary files/directories and symlinks (pointing outside and back
inside).  Every (operation, key, filename, mode) from an adversarial grammar is executed against the real
LocalStorage; after each one the sandbox is compared with its snapshot: any change outside `root/<key>/` (one
level), any opened path that does not resolve to a file directly inside a direct child of the root, is a witness.
"""
from __future__ import annotations

import argparse
import builtins
import io
import itertools
import json
import os
import shutil
import sys
import tempfile
import traceback
from pathlib import Path


def snapshot(top: Path):
    out = {}
    for dp, dns, fns in os.walk(top, followlinks=False):
        for n in dns + fns:
            p = Path(dp) / n
            try:
                if p.is_symlink():
                    out[str(p)] = ('link', os.readlink(p))
                elif p.is_dir():
                    out[str(p)] = ('dir',)
                else:
                    out[str(p)] = ('file', p.read_bytes())
            except OSError as ex:
                out[str(p)] = ('err', str(ex))
    return out


def build(top: Path):
    root = top / 'storage'
    outside = top / 'outside'
    outside.mkdir()
    (outside / 'secret.txt').write_text('outside-contents\n')
    (outside / 'dir').mkdir()
    (outside / 'dir' / 'inner.txt').write_text('inner\n')
    from labtech.storage import LocalStorage
    st = LocalStorage(root)
    root = root.resolve()
    (root / 'alpha').mkdir()
    (root / 'alpha' / 'data.txt').write_text('alpha-data\n')
    (root / 'alpha' / 'parts').mkdir()
    (root / 'alpha' / 'parts' / 'part0.txt').write_text('p0\n')
    (root / 'beta').mkdir()
    os.symlink(outside / 'secret.txt', root / 'alpha' / 'result')          # file link to outside
    os.symlink(outside / 'created.txt', root / 'alpha' / 'fresh')          # dangling link to outside
    os.symlink(outside / 'dir', root / 'alpha' / 'dirlink')                 # directory link to outside INSIDE a key directory (a recursive delete must not follow it)
    os.symlink(outside / 'dir', root / 'outlink')                           # key-level link to outside dir
    os.symlink(root, root / 'selfref')                                      # key-level link to the root itself
    os.symlink(root / 'alpha' / 'parts', root / 'deep')                     # key-level link to a nested dir
    os.symlink(root / 'beta', root / 'alias')                               # key-level link to another key dir
    return st, root, outside


KEYS = ['alpha', 'beta', 'newkey', '', '.', '..', '../outside', 'alpha/parts', 'alpha\\parts', '/etc', 'outlink', 'selfref',
        'deep', 'alias', 'al.pha', 'alpha/', '\x00', 'new key', '~', 'alpha/../beta']
FILES = ['data.txt', 'new.txt', '', '.', '..', '../beta/x', '../../outside/secret.txt', '/etc/passwd', 'parts/part0.txt', 'result',
         'fresh', 'parts', 'sub/new.txt', '\x00',
         '../phantom/x.txt', '../../outside/newdir/deeper/x.txt']     # rejected names whose parent does not exist yet: nothing may be created for them
MODES = ['r', 'w', 'a', 'rb', 'wb', 'x', 'r+']


def relative_root_then_chdir():
    """The root is fixed when the storage is built: a relative directory, then a change of working directory to a place
    that has a directory of the same name, must not redirect later operations."""
    from labtech.storage import LocalStorage
    top = Path(tempfile.mkdtemp(prefix='labtech-c18-')).resolve()
    cwd = os.getcwd()
    try:
        (top / 'a').mkdir()
        (top / 'b' / 'cache' / 'victim').mkdir(parents=True)
        (top / 'b' / 'cache' / 'victim' / 'data.txt').write_text('other-project\n')
        os.chdir(top / 'a')
        st = LocalStorage('cache')
        with st.file_handle('victim', 'data.txt', mode='w') as fh:
            fh.write('mine\n')
        os.chdir(top / 'b')
        before = snapshot(top / 'b')
        problems = []
        try:
            if not st.exists('victim'):
                problems.append('exists(victim) is False after chdir although the entry was written')
            with st.file_handle('victim', 'data.txt', mode='w') as fh:
                fh.write('mine-2\n')
            st.delete('victim')
        except BaseException as ex:   # noqa
            problems.append(f'{type(ex).__name__}: {ex}')
        after = snapshot(top / 'b')
        if before != after:
            ch = sorted(p for p in set(before) | set(after) if before.get(p) != after.get(p))
            return f'LocalStorage(\'cache\') built in directory a; after os.chdir(b) its operations changed {ch[:2]} under b/cache (the storage root follows the working directory)'
        if (top / 'a' / 'cache' / 'victim').exists():
            return 'after os.chdir the delete of the entry written before did not reach the original storage directory'
    finally:
        os.chdir(cwd)
        shutil.rmtree(top, ignore_errors=True)
    return None


def explore(limit=None):
    n = 0
    cases = [('exists', k, None, None, None) for k in KEYS] + [('delete', k, None, None, None) for k in KEYS] + \
            [('file_handle', k, f, m, None) for k in KEYS for f in FILES for m in MODES]
    # histories on ONE storage object: the keys were listed (find_keys) or validated before, then the entry is used / swapped
    hk = ['outlink', 'selfref', 'deep', 'alias', 'alpha', 'gamma']
    for prelude in ('find_keys', 'swap'):
        cases += [('exists', k, None, None, prelude) for k in hk] + [('delete', k, None, None, prelude) for k in hk] + \
                 [('file_handle', k, f, m, prelude) for k in hk for f in ('new.txt', 'result', 'data.txt') for m in ('w', 'r', 'a')]
    why = relative_root_then_chdir()
    if why:
        return dict(reproduced=True, level='api', case=['relative root', 'chdir'], summary=why), 1
    for op, key, fn, mode, prelude in cases[:limit]:
        top = Path(tempfile.mkdtemp(prefix='labtech-c18-'))
        try:
            st, root, outside = build(top)
            if prelude == 'find_keys':
                try:
                    st.find_keys()
                except BaseException:   # noqa
                    pass
            elif prelude == 'swap':
                (root / 'gamma').mkdir()
                try:
                    st.exists('gamma')
                    with st.file_handle('gamma', 'seen.txt', mode='w') as fh0:
                        fh0.write('x')
                except BaseException:   # noqa
                    pass
                shutil.rmtree(root / 'gamma')
                os.symlink(outside / 'dir', root / 'gamma')                 # the validated key now points outside
            before = snapshot(top)
            opened = []
            real_open = io.open

            def spy_open(file, *a, **kw):
                opened.append(str(file))
                return real_open(file, *a, **kw)
            io.open = spy_open
            builtins.open = spy_open
            err = None
            try:
                if op == 'exists':
                    st.exists(key)
                elif op == 'delete':
                    st.delete(key)
                else:
                    h = st.file_handle(key, fn, mode=mode)
                    try:
                        if 'r' not in mode or '+' in mode:
                            h.write(b'pwned' if 'b' in mode else 'pwned')
                        else:
                            h.read()
                    finally:
                        h.close()
            except BaseException as ex:   # noqa: any rejection is acceptable
                err = type(ex).__name__
            finally:
                io.open = real_open
                builtins.open = real_open
            after = snapshot(top)
            n += 1
            # allowed: root/<key> itself (a real directory that is a direct child of root) and files directly inside it
            allowed_dir = None
            if err is None or True:
                # the ONE direct child of the root that the key denotes (after symlink resolution, as LocalStorage does)
                cand = root / key if key and all(c not in key for c in './\\') and '\x00' not in key else None
                if cand is not None:
                    rp0 = os.path.realpath(cand)
                    if os.path.dirname(rp0) == str(root):
                        allowed_dir = rp0
            for p in set(before) | set(after):
                if before.get(p) == after.get(p):
                    continue
                ok = allowed_dir is not None and (p == allowed_dir or (os.path.dirname(p) == allowed_dir) or (op == 'delete' and p.startswith(allowed_dir + os.sep)))
                if not ok:
                    return dict(reproduced=True, level='api', case=[op, key, fn, mode, prelude], error=err,
                                summary=f'{"after " + prelude + ": " if prelude else ""}{op}({key!r}, {fn!r}, {mode!r}) changed {p} which is outside the key directory ({before.get(p, "absent")!s:.40} -> {after.get(p, "absent")!s:.40})'), n
            for o in opened:
                rp = os.path.realpath(o)
                if not (os.path.dirname(os.path.dirname(rp)) == str(root)) or (allowed_dir is not None and os.path.dirname(rp) != allowed_dir):
                    if os.path.dirname(os.path.dirname(rp)) != str(root) or allowed_dir is None or os.path.dirname(rp) != allowed_dir:
                        return dict(reproduced=True, level='api', case=[op, key, fn, mode, prelude], error=err,
                                    summary=f'{"after " + prelude + ": " if prelude else ""}{op}({key!r}, {fn!r}, {mode!r}) opened {o} -> {rp}, not a file directly inside the key directory'), n
        finally:
            shutil.rmtree(top, ignore_errors=True)
    return dict(reproduced=False, level='api', cases=n), n


def main():
    ap = argparse.ArgumentParser()
    ap.add_argument('--obligation', default='')
    ap.add_argument('--repo', default='/repo')
    ap.add_argument('--prop', default='C18')
    ap.add_argument('--tier', default='quick')
    a = ap.parse_args()
    try:
        res, n = explore()
    except Exception:
        res = dict(reproduced=False, error=traceback.format_exc()[-1500:])
    if a.obligation:
        print(json.dumps(res, default=str))
    else:
        print(json.dumps([dict(name='c18:confinement-sandbox', bounded=True, bound=f'{res.get("cases")} adversarial keys / operations in a sandboxed directory tree',
                               violation=bool(res.get('reproduced')), witness=[res] if res.get('reproduced') else [], error=res.get('error'))], default=str))
    return 1 if res.get('reproduced') else 0


if __name__ == '__main__':
    sys.exit(main())
