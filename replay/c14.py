"""Native harness for C14: KeyboardInterrupt injected at chosen line boundaries of the calling thread.

BOUNDED (never counted as proved).  Two uses: replay of a refuted interrupt obligation, and -- in the thorough tier,
or whenever part of the cone is undecided -- stand-in for the interrupt instants the verifier does not decide
(inside TaskState methods and other callee bodies).

`sys.settrace` raises KeyboardInterrupt when the calling thread is about to execute a given occurrence of a given
(labtech file, line).  A recording run collects the line events inside run_tasks; then one run per point injects the
interrupt there (serial: every line the caller executes in labtech; process backends: the lines of lab.py and
runners/process.py).  A second interrupt can be injected at a later point of the same run.

Oracle (from the property statement):
  * run_tasks raises KeyboardInterrupt -- never another exception, never a normal return;
  * no task is started after the first interrupt: no `Process.start()` by the calling thread and no entry into
    run_or_load_task by the serial runner once the interrupt has been delivered;
  * the cache is left consistent: in a fresh Lab on the same directory every task reported as cached loads the value
    the reference evaluator predicts, and a full re-run returns the reference values for all tasks.
"""
from __future__ import annotations

import argparse
import json
import logging
import multiprocessing
import multiprocessing.process
import os
import sys
import tempfile
import threading
import traceback

WATCHDOG_S = 25


SLOW = False


def scenario():
    from replay.universe import A, K
    if SLOW:
        # tasks that are still executing when the interrupt arrives (process backends): three ready tasks for two workers
        # (the task that has to wait for a free worker, and is therefore started from wait(), runs longer than the others)
        return [K('s1', (), 'slow'), A('s2', (), 'slow'), K('s3', (), 'slower'), K('s4', (K('s1', (), 'slow'),), 'slow')]
    d1, d2 = K('d1'), A('d2')
    return [K('t1', (d1, d2)), A('t2', (d2,)), K('t3'), K('t4', (d1,))]


def one_run(kind, inject=None, record=None, second=None, occurrence=1):
    import labtech
    import labtech.runners.serial as serial_mod
    from replay.universe import closure, expected_value
    logging.getLogger('labtech').setLevel(logging.CRITICAL)
    tasks = scenario()
    root = os.path.dirname(labtech.__file__)
    state = dict(fired=0, count={}, late_starts=[])
    main = threading.get_ident()

    def tracer(frame, event, arg):
        fn = frame.f_code.co_filename
        if not fn.startswith(root):
            return None
        if event == 'line' and threading.get_ident() == main and state.get('armed'):
            # a point = (file, line, calling function): the same line reached through another caller (e.g. _start_processes
            # from submit() and from wait()) is a different interrupt instant
            key = (os.path.relpath(fn, root), frame.f_lineno, frame.f_back.f_code.co_name if frame.f_back is not None else '')
            if record is not None:
                record.append(key)
            n = state['count'][key] = state['count'].get(key, 0) + 1
            if inject is not None and key == inject and n == occurrence and state['fired'] == 0:
                state['fired'] = 1
                f = frame
                while f is not None:      # is BaseCache.save (or a callee of it) executing on the interrupted thread?
                    if f.f_code.co_name in ('save', 'save_result') and f.f_code.co_filename.endswith('cache.py'):
                        state['in_save'] = True
                    f = f.f_back
                raise KeyboardInterrupt()
            if second is not None and state['fired'] == 1 and key == second and not state.get('second_done'):
                state['second_done'] = True
                state['fired'] = 2
                raise KeyboardInterrupt()
        return tracer

    orig_start = multiprocessing.process.BaseProcess.start
    orig_rolt = serial_mod.run_or_load_task
    # CPython switches tracing OFF when a trace function raises.  The coordinator's handler calls runner.cancel() first: the
    # tracer is re-armed there (for the frames already on the stack too), so that a SECOND interrupt can be injected.
    import labtech.runners.process as process_mod
    orig_cancels = {cls: cls.cancel for cls in (process_mod.ProcessRunner, serial_mod.SerialRunner)}

    def make_cancel(orig):
        def cancel(self_):
            if state.get('armed') and state['fired'] == 1 and threading.get_ident() == main:
                f = sys._getframe(1)
                while f is not None:
                    if f.f_code.co_filename.startswith(root):
                        f.f_trace = tracer
                    f = f.f_back
                sys.settrace(tracer)
            return orig(self_)
        return cancel

    def start_spy(self, *a, **k):
        if state['fired'] and state.get('armed') and threading.get_ident() == main and 'SyncManager' not in type(self).__name__ \
                and getattr(self, '_target', None) is not None and getattr(self._target, '__name__', '') == '_subprocess_target':
            state['late_starts'].append(f'Process.start() for future {self._kwargs.get("future_id")}')
        return orig_start(self, *a, **k)

    def rolt_spy(*a, **k):
        if state['fired'] and state.get('armed') and not k.get('use_cache', False):
            state['late_starts'].append(f'serial run_or_load_task({k.get("task_name") or (a[1] if len(a) > 1 else "?")})')
        return orig_rolt(*a, **k)

    with tempfile.TemporaryDirectory() as d, tempfile.TemporaryDirectory() as marks_dir:
        if SLOW:
            os.environ['C14_MARKS'] = marks_dir
        else:
            os.environ.pop('C14_MARKS', None)
        lab = labtech.Lab(storage=d, continue_on_failure=True, runner_backend=kind, max_workers=2)
        outcome = None
        multiprocessing.process.BaseProcess.start = start_spy
        serial_mod.run_or_load_task = rolt_spy
        for cls, orig in orig_cancels.items():
            cls.cancel = make_cancel(orig)
        import signal

        class Hang(BaseException):
            pass

        def on_alarm(signum, frame):
            raise Hang()
        old_handler = signal.signal(signal.SIGALRM, on_alarm)
        sys.settrace(tracer)
        try:
            state['armed'] = True
            signal.setitimer(signal.ITIMER_REAL, WATCHDOG_S)        # watchdog: a drain loop that never ends is a finding, not a stuck harness
            try:
                lab.run_tasks(tasks, disable_progress=True, disable_top=True)
                outcome = 'return'
            except KeyboardInterrupt:
                outcome = 'KeyboardInterrupt'
                if state['fired'] == 1:
                    # after ONE interrupt run_tasks may only raise once nothing is executing any more (running tasks are drained)
                    md = os.environ.get('C14_MARKS')
                    if md:
                        names = set(os.listdir(md))
                        und = sorted(n[6:] for n in names if n.startswith('start-') and ('end-' + n[6:]) not in names)
                        if und:
                            state['undrained'] = f'task(s) {und} had entered run() and had not finished when run_tasks raised'
                        else:
                            # a worker that was started but has not reached run() yet: does anything still execute AFTER the raise?
                            kids = [ch for ch in multiprocessing.active_children() if 'SyncManager' not in ch.name and 'SyncManager' not in type(ch).__name__]
                            for ch in kids:
                                ch.join(2.0)
                            later = sorted(set(os.listdir(md)) - names) if kids else []
                            if later:
                                state['undrained'] = f'task activity {later} AFTER run_tasks had raised: a started worker was neither waited for nor stopped'
            except Hang:
                outcome = f'no return within {WATCHDOG_S}s (run_tasks kept waiting after the interrupt)'
            except BaseException as ex:     # noqa
                outcome = f'{type(ex).__name__}: {ex}'[:200]
        finally:
            signal.setitimer(signal.ITIMER_REAL, 0)
            state['armed'] = False
            sys.settrace(None)
            signal.signal(signal.SIGALRM, old_handler)
            for ch in multiprocessing.active_children():
                if 'SyncManager' not in type(ch).__name__ and outcome and outcome.startswith('no return'):
                    ch.terminate()
            multiprocessing.process.BaseProcess.start = orig_start
            serial_mod.run_or_load_task = orig_rolt
            for cls, orig in orig_cancels.items():
                cls.cancel = orig
        cache_problem = None
        if inject is not None and state['fired'] == 1:
            # single interrupt: whatever was running was allowed to finish and cache; the cache must be consistent
            try:
                lab2 = labtech.Lab(storage=d, continue_on_failure=True, runner_backend='serial')
                allt = closure(tasks)
                res = lab2.run_tasks(list(allt), disable_progress=True, disable_top=True)
                for t in allt:
                    if res.get(t) != expected_value(t):
                        cache_problem = f'after the interrupted run, a fresh Lab returns {res.get(t)!r} for {t}, expected {expected_value(t)!r}'
                        break
            except BaseException as ex:   # noqa
                cache_problem = f'after the interrupted run, a fresh Lab on the same directory raised {type(ex).__name__}: {ex}'[:300]
    if state.get('undrained'):
        state['late_starts'] = state['late_starts'] + ['UNDRAINED: ' + state['undrained']]
    return outcome, state['fired'], state['late_starts'], (('[inside save] ' if state.get('in_save') else '') + cache_problem) if cache_problem else None


def verdict(kind, p, out, fired, late, cache_problem, second=None):
    where = f'{p[0]}:{p[1]} (called from {p[2]})' + (f' then a second one at {second[0]}:{second[1]}' if second else '')
    if fired and out != 'KeyboardInterrupt':
        return f'{kind}: KeyboardInterrupt injected at {where} -> run_tasks ended with `{out}` instead of KeyboardInterrupt'
    if fired and late and late[0].startswith('UNDRAINED: '):
        return f'{kind}: single KeyboardInterrupt at {where}: run_tasks raised without draining what was executing: {late[0][11:]}'
    if fired and late:
        return f'{kind}: after the KeyboardInterrupt at {where} a task was still started: {late[0]}'
    if fired and cache_problem:
        return f'{kind}: KeyboardInterrupt at {where}: {cache_problem}'
    return None


def points_of(kind):
    rec = []
    out, _, _, _ = one_run(kind, record=rec)
    if out != 'return':
        raise RuntimeError(f'recording run did not return normally: {out}')
    points, counts = [], {}
    for k in rec:
        counts[k] = counts.get(k, 0) + 1
        if k not in points:
            points.append(k)
    if kind != 'serial':
        points = [p for p in points if p[0] in ('lab.py', os.path.join('runners', 'process.py'))]
    return points, counts


def search(kind, tier='quick', limit=None):
    points, counts = points_of(kind)
    tried = 0
    known_sites = []
    untracked = []
    for p in points[:limit]:
        out, fired, late, cp = one_run(kind, inject=p)
        tried += 1
        if fired and out == 'KeyboardInterrupt' and not late and cp and cp.startswith('[inside save]'):
            # the interrupt was delivered to the thread that is executing BaseCache.save (serial backend): the failed save
            # leaves a partial entry -- the same defect as C12's F-save, reported separately and the search goes on
            known_sites.append(f'{p[0]}:{p[1]}')
            continue
        why = verdict(kind, p, out, fired, late, cp)
        if why:
            return dict(reproduced=True, level='api', backend=kind, point=list(p), tried=tried, summary=why, known_sites=known_sites)
    if kind != 'serial':
        # the same sweep over the executor's own lines with SLOW tasks, so that worker processes are still executing when
        # the interrupt lands (is everything that was started drained? is nothing new started?)
        global SLOW
        SLOW = True
        try:
            spoints, _ = points_of(kind)
            for p in [q for q in spoints if q[0].endswith('process.py') and q[2] in ('_start_processes', 'submit', 'wait', 'submit_task', '_submit_task', '_consume_result_queue')]:
                out, fired, late, cp = one_run(kind, inject=p)
                tried += 1
                if fired and out == 'KeyboardInterrupt' and late and late[0].startswith('UNDRAINED: ') and p[2] in ('_submit_task', 'submit_task'):
                    # the window between Process.start() inside executor.submit() and the registration of the returned future in
                    # ProcessRunner.submit_task: the worker is running but the runner does not track it yet (known finding)
                    untracked.append(f'{p[0]}:{p[1]} (called from {p[2]})')
                    continue
                why = verdict(kind, p, out, fired, late, None)
                if why:
                    return dict(reproduced=True, level='api', backend=kind, point=list(p), tried=tried, summary=why + ' [slow tasks]', known_sites=known_sites, untracked=untracked)
        finally:
            SLOW = False
    if tier != 'quick':
        # later occurrences of the same line (loop iterations), and a second interrupt after the first
        for p in points:
            for occ in (2, 3):
                if counts.get(p, 0) >= occ:
                    out, fired, late, cp = one_run(kind, inject=p, occurrence=occ)
                    tried += 1
                    if fired and out == 'KeyboardInterrupt' and not late and cp and cp.startswith('[inside save]'):
                        known_sites.append(f'{p[0]}:{p[1]}#{occ}')       # same known site class as in the first sweep
                        continue
                    why = verdict(kind, p, out, fired, late, cp)
                    if why:
                        return dict(reproduced=True, level='api', backend=kind, point=list(p), occurrence=occ, tried=tried, summary=why + f' (occurrence {occ})')
    # double interrupts: the second one is injected at a line boundary executed AFTER the first (so the handler's own lines,
    # cancel(), the drain loop and stop() are covered); first points sampled, second points sampled among what ran afterwards
    n_first, n_second = (8, 6) if tier == 'quick' else (30, 16)
    step1 = max(1, len(points) // n_first)
    for p1 in points[::step1]:
        rec = []
        one_run(kind, inject=p1, record=rec)
        after = []
        if p1 in rec:
            for q in rec[rec.index(p1) + 1:]:
                if q not in after:
                    after.append(q)
        step2 = max(1, len(after) // n_second)
        for q in after[::step2]:
            out, fired, late, cp = one_run(kind, inject=p1, second=q)
            tried += 1
            if fired == 2 and out != 'KeyboardInterrupt':
                return dict(reproduced=True, level='api', backend=kind, point=list(p1), second=list(q), tried=tried,
                            summary=verdict(kind, p1, out, fired, [], None, second=q), known_sites=known_sites)
    return dict(reproduced=False, level='api', backend=kind, points=len(points), tried=tried, known_sites=known_sites, untracked=untracked)


GROUP = r"""
import json, logging, os, signal, sys, tempfile, threading, time
import labtech
logging.getLogger('labtech').setLevel(logging.CRITICAL)
MARKS = sys.argv[2]

@labtech.task
class Job:
    n: int
    secs: float = 1.2
    def run(self):
        open(os.path.join(MARKS, f'start-{self.n}'), 'w').close()
        time.sleep(self.secs)
        open(os.path.join(MARKS, f'end-{self.n}'), 'w').close()
        return self.n

def ctrl_c():
    # what a terminal does on Ctrl-C: SIGINT to EVERY process of the foreground group (the caller and all its workers), once,
    # as soon as both workers are executing
    t0 = time.time()
    while time.time() - t0 < 20 and len([f for f in os.listdir(MARKS) if f.startswith('start-')]) < 2:
        time.sleep(0.02)
    time.sleep(0.15)
    os.killpg(os.getpgrp(), signal.SIGINT)

if __name__ == '__main__':
    backend = sys.argv[1]
    with tempfile.TemporaryDirectory() as d:
        lab = labtech.Lab(storage=d, runner_backend=backend, max_workers=2)
        tasks = [Job(i) for i in range(4)]
        threading.Thread(target=ctrl_c, daemon=True).start()
        out = dict(raised=None)
        try:
            lab.run_tasks(tasks, disable_progress=True, disable_top=True)
        except BaseException as ex:
            out['raised'] = type(ex).__name__
        started = sorted(int(f.split('-')[1]) for f in os.listdir(MARKS) if f.startswith('start-'))
        ended = sorted(int(f.split('-')[1]) for f in os.listdir(MARKS) if f.startswith('end-'))
        out.update(started=started, ended=ended, cached=[t.n for t in tasks if lab.is_cached(t)])
        print(json.dumps(out))
"""


def group_sigint(kind):
    """A REAL Ctrl-C: SIGINT delivered once to the whole process group while two tasks execute in worker processes.  The
    executing tasks finish and are cached, nothing new is started, run_tasks raises KeyboardInterrupt."""
    import subprocess
    top = tempfile.mkdtemp(prefix='labtech-c14g-')
    try:
        script = os.path.join(top, 'c14_group.py')
        open(script, 'w').write(GROUP)
        marks = os.path.join(top, 'marks')
        os.mkdir(marks)
        try:
            cp = subprocess.run([sys.executable, script, kind, marks], capture_output=True, text=True, timeout=60, start_new_session=True)
        except subprocess.TimeoutExpired:
            return f'{kind}: one SIGINT to the process group while two tasks were executing: run_tasks had not returned after 60 s'
        lines = [ln for ln in cp.stdout.splitlines() if ln.startswith('{')]
        if not lines:
            return None if cp.returncode in (-2, 130) and not cp.stdout else f'{kind}: group SIGINT scenario produced no report (exit {cp.returncode}): {cp.stderr[-300:]}'
        out = json.loads(lines[-1])
        if len(out['started']) < 2:
            return None          # the interrupt came before two workers were executing: nothing to judge
        if out['raised'] != 'KeyboardInterrupt':
            return f'{kind}: one SIGINT to the process group: run_tasks ended with {out["raised"]} instead of KeyboardInterrupt'
        if out['ended'] != out['started'] or sorted(out['cached']) != out['started']:
            return (f'{kind}: one SIGINT to the process group (a terminal Ctrl-C) while tasks {out["started"]} were executing: tasks that ran to their end {out["ended"]}, '
                    f'cached {sorted(out["cached"])} -- every executing task must be allowed to finish and be cached')
        return None
    finally:
        import shutil
        shutil.rmtree(top, ignore_errors=True)


def main():
    ap = argparse.ArgumentParser()
    ap.add_argument('--obligation', default='')
    ap.add_argument('--repo', default='/repo')
    ap.add_argument('--backend', default='')
    ap.add_argument('--prop', default='C14')
    ap.add_argument('--tier', default='quick')
    a = ap.parse_args()
    res = dict(reproduced=False)
    runs = []
    known = []
    try:
        if a.backend:
            kinds = [a.backend]
        elif a.obligation:
            kinds = ['fork', 'serial'] if ('ProcessRunner' in a.obligation or 'process' in a.obligation) else ['serial', 'fork']
        else:
            kinds = ['serial', 'fork'] + (['spawn'] if a.tier != 'quick' else [])
        for kind in kinds:
            res = search(kind, a.tier if not a.obligation else 'quick', limit=(40 if kind == 'spawn' else None))
            runs.append(f'{kind}: {res.get("tried")} injected runs over {res.get("points", "?")} line boundaries')
            if res.get('untracked'):
                known.append(dict(id=f'c14:undrained-before-tracking/{kind}',
                                  summary=f'{kind} backend: a single KeyboardInterrupt that lands after executor.submit() has started the worker process and before '
                                          f'ProcessRunner.submit_task has stored the returned future ({", ".join(res["untracked"][:3])}) leaves a running worker the runner does not '
                                          f'track: run_tasks raises KeyboardInterrupt without waiting for it (the worker finishes and caches its result on its own afterwards)'))
            if res.get('known_sites'):
                known.append(dict(id=f'c14:interrupt-inside-save/{kind}',
                                  summary=f'{kind} backend: a KeyboardInterrupt delivered while BaseCache.save runs on the calling thread (at {len(res["known_sites"])} line boundaries, '
                                          f'e.g. {", ".join(res["known_sites"][:4])}) leaves an entry that is reported as cached but cannot be loaded'))
            if res.get('reproduced'):
                break
        if not res.get('reproduced') and not a.backend:
            for kind in (('fork', 'spawn') if not a.obligation or 'subprocess_func' in a.obligation or 'SIGINT' in a.obligation else ()):
                why = group_sigint(kind)
                runs.append(f'{kind}: one real SIGINT to the whole process group while two workers execute')
                if why:
                    res = dict(reproduced=True, level='api', backend=kind, summary=why)
                    break
    except Exception:
        res = dict(reproduced=False, error=traceback.format_exc()[-1500:])
    if a.obligation:
        print(json.dumps(res, default=str))
    else:
        print(json.dumps([dict(name='c14:line-boundary-interrupt-injection', bounded=True,
                               bound='; '.join(runs) + ('; first occurrence of each line' if a.tier == 'quick' else '; occurrences 1-3 of each line, sampled second interrupts'),
                               violation=bool(res.get('reproduced')), witness=[res] if res.get('reproduced') else [], findings=known, error=res.get('error'))], default=str))
    return 1 if res.get('reproduced') else 0


if __name__ == '__main__':
    sys.exit(main())
