"""Native replay for C14: a KeyboardInterrupt injected at a chosen line boundary of the calling thread.

`sys.settrace` raises KeyboardInterrupt when the calling thread is about to execute the n-th occurrence of a
given (labtech file, line).  First a recording run collects the line events inside run_tasks; then one run per
distinct (file, line) injects the interrupt at its first occurrence (serial: every line; process backends: the
lines of lab.py and runners/process.py executed by the caller).  Oracle: run_tasks raises KeyboardInterrupt
(never another exception, never a normal return) and no task starts after the interrupt.
"""
from __future__ import annotations

import argparse
import json
import logging
import os
import sys
import tempfile
import threading
import traceback


def one_run(kind, inject=None, record=None, second=None):
    import labtech
    from replay.universe import A
    logging.getLogger('labtech').setLevel(logging.CRITICAL)
    d1, d2 = A('d1'), A('d2')
    tasks = [A('t1', (d1, d2)), A('t2', (d2,)), A('t3')]
    root = os.path.dirname(labtech.__file__)
    state = dict(fired=0, count={})
    main = threading.get_ident()

    def tracer(frame, event, arg):
        fn = frame.f_code.co_filename
        if not fn.startswith(root):
            return None
        if event == 'line' and threading.get_ident() == main and state.get('armed'):
            key = (os.path.relpath(fn, root), frame.f_lineno)
            if record is not None:
                record.append(key)
            n = state['count'][key] = state['count'].get(key, 0) + 1
            if inject is not None and key == inject and n == 1 and state['fired'] == 0:
                state['fired'] = 1
                raise KeyboardInterrupt()
            if second is not None and state['fired'] == 1 and key == second and not state.get('second_done'):
                state['second_done'] = True
                state['fired'] = 2
                raise KeyboardInterrupt()
        return tracer

    with tempfile.TemporaryDirectory() as d:
        lab = labtech.Lab(storage=d, continue_on_failure=True, runner_backend=kind, max_workers=2)
        outcome = None
        sys.settrace(tracer)
        try:
            state['armed'] = True
            try:
                lab.run_tasks(tasks, disable_progress=True, disable_top=True)
                outcome = 'return'
            except KeyboardInterrupt:
                outcome = 'KeyboardInterrupt'
            except BaseException as ex:     # noqa
                outcome = f'{type(ex).__name__}: {ex}'[:200]
        finally:
            state['armed'] = False
            sys.settrace(None)
    return outcome, state['fired']


def search(kind, limit=None):
    rec = []
    out, _ = one_run(kind, record=rec)
    if out != 'return':
        return dict(reproduced=False, error=f'recording run did not return normally: {out}')
    points = []
    for k in rec:
        if k not in points:
            points.append(k)
    if kind != 'serial':
        points = [p for p in points if p[0] in ('lab.py', os.path.join('runners', 'process.py'))]
    tried = 0
    for p in points[:limit]:
        out, fired = one_run(kind, inject=p)
        tried += 1
        if fired and out != 'KeyboardInterrupt':
            return dict(reproduced=True, level='api', backend=kind, point=list(p), tried=tried,
                        summary=f'{kind}: KeyboardInterrupt injected at {p[0]}:{p[1]} -> run_tasks ended with `{out}` instead of KeyboardInterrupt')
    return dict(reproduced=False, level='api', backend=kind, points=len(points), tried=tried)


def main():
    ap = argparse.ArgumentParser()
    ap.add_argument('--obligation', default='')
    ap.add_argument('--repo', default='/repo')
    ap.add_argument('--backend', default='')
    a = ap.parse_args()
    res = dict(reproduced=False)
    try:
        kinds = [a.backend] if a.backend else (['fork', 'serial'] if 'ProcessRunner' in a.obligation or 'process' in a.obligation else ['serial', 'fork'])
        for kind in kinds:
            res = search(kind)
            if res.get('reproduced'):
                break
    except Exception:
        res = dict(reproduced=False, error=traceback.format_exc()[-1500:])
    print(json.dumps(res, default=str))
    return 1 if res.get('reproduced') else 0


if __name__ == '__main__':
    sys.exit(main())
