"""Native replay / bounded stand-in for C06: a cache hit returns the value and metadata stored for that very task.

Runs a few task sets under backend A into a storage directory, then loads them in a FRESH interpreter (different
hash seed) under backend B: values equal, run() not called again (execution marks), result_meta equal to the first
run's, is_cached true, no cross-task mix-ups.  Also the one floating-point clause of the proof, bounded:
timedelta(seconds=td.total_seconds()) == td over edge durations up to 100 years.
"""
from __future__ import annotations

import argparse
import json
import os
import subprocess
import sys
import tempfile
import traceback
from datetime import timedelta

CHILD = r'''
import json, os, sys, logging, pickle
import labtech
logging.getLogger('labtech').setLevel(logging.CRITICAL)
MARKS = os.environ['C06_MARKS']

@labtech.task
class V:
    n: int
    tag: str = 'a'
    def run(self):
        open(os.path.join(MARKS, f'ran-{self.n}-{self.tag}-{os.getpid()}-{len(os.listdir(MARKS))}'), 'w').close()
        return {'n': self.n, 'tag': self.tag, 'sq': self.n * self.n}

@labtech.task
class W:
    v: V
    k: float = 1.5
    def run(self):
        open(os.path.join(MARKS, f'ran-W{self.v.n}-{os.getpid()}-{len(os.listdir(MARKS))}'), 'w').close()
        return (self.v.result['sq'] * self.k, self.v.tag)

def main():
    d, backend, phase = sys.argv[1], sys.argv[2], sys.argv[3]
    tasks = [W(V(i, t)) for i in (1, 2) for t in ('a', 'b')] + [V(1, 'a'), V(3, 'zz')]
    lab = labtech.Lab(storage=d, runner_backend=backend, max_workers=2)
    res = lab.run_tasks(tasks, disable_progress=True, disable_top=True)
    out = {repr(t): [res[t], [t.result_meta.start.isoformat(), t.result_meta.duration.total_seconds()], lab.is_cached(t)] for t in tasks}
    print(json.dumps(out))

if __name__ == '__main__':
    main()
'''


def run_child(script, d, backend, phase, marks, seed):
    env = dict(os.environ, C06_MARKS=marks, PYTHONHASHSEED=str(seed))
    cp = subprocess.run([sys.executable, script, d, backend, phase], capture_output=True, text=True, env=env, timeout=120)
    if cp.returncode != 0:
        raise RuntimeError(cp.stderr[-800:])
    return json.loads(cp.stdout.strip().splitlines()[-1])


def explore(tier='quick'):
    # task types are defined in the child SCRIPT (module __main__): under spawn the worker re-imports it as __mp_main__,
    # so a first run with the spawn backend followed by any other backend is part of the quick tier as well
    pairs = [('serial', 'fork'), ('fork', 'serial'), ('spawn', 'serial')] if tier == 'quick' else [('serial', 'fork'), ('fork', 'spawn'), ('spawn', 'serial'), ('fork', 'fork'), ('spawn', 'spawn')]
    n = 0
    for a, b in pairs:
        with tempfile.TemporaryDirectory() as top:
            d, marks = os.path.join(top, 'store'), os.path.join(top, 'marks')
            os.mkdir(marks)
            script = os.path.join(top, 'c06_child.py')
            open(script, 'w').write(CHILD)
            first = run_child(script, d, a, 'first', marks, 1)
            ran1 = len(os.listdir(marks))
            second = run_child(script, d, b, 'second', marks, 987)
            ran2 = len(os.listdir(marks))
            n += 1
            if ran2 != ran1:
                return dict(reproduced=True, level='api', summary=f'{a}->{b}: run() was called again on a cache hit ({ran2 - ran1} executions in the second run)')
            for k in first:
                if not first[k][2] or not second[k][2]:
                    return dict(reproduced=True, level='api', summary=f'{a}->{b}: is_cached({k}) is false after a successful execution')
                if first[k][0] != second[k][0]:
                    return dict(reproduced=True, level='api', summary=f'{a}->{b}: cache hit for {k} returned {second[k][0]!r}, stored {first[k][0]!r}')
                if first[k][1] != second[k][1]:
                    return dict(reproduced=True, level='api', summary=f'{a}->{b}: result_meta of {k} differs after load: {second[k][1]} vs recorded {first[k][1]}')
    # the storage location is fixed when the Lab is built: a relative directory plus a later change of the working directory
    why = relative_root_then_chdir()
    if why:
        return dict(reproduced=True, level='api', summary=why)
    # bounded floating-point clause
    bad = []
    cands = [timedelta(0), timedelta(microseconds=1), timedelta(microseconds=999999), timedelta(seconds=1, microseconds=1),
             timedelta(days=1, microseconds=1), timedelta(days=365 * 100, microseconds=123457), timedelta(hours=7, microseconds=3)]
    cands += [timedelta(microseconds=(17 ** k) % (10 ** 14)) for k in range(1, 400)]
    for td in cands:
        if timedelta(seconds=td.total_seconds()) != td:
            bad.append(str(td))
    if bad:
        return dict(reproduced=True, level='function', summary=f'timedelta(seconds=td.total_seconds()) != td for {bad[:3]} (stored duration does not round-trip)', bounded=True)
    return dict(reproduced=False, level='api', pairs=n, durations_checked=len(cands))


REL_CHILD = r"""
import json, logging, os, sys
import labtech
logging.getLogger('labtech').setLevel(logging.CRITICAL)
marks = sys.argv[1]

@labtech.task
class Rel:
    n: int
    def run(self):
        open(os.path.join(marks, f'{self.n}-{os.getpid()}-{len(os.listdir(marks))}'), 'w').close()
        return {'n': self.n}

os.chdir(sys.argv[2])
lab = labtech.Lab(storage='relstore', runner_backend='serial')
t = Rel(5)
first = lab.run_tasks([t], disable_progress=True, disable_top=True)[t]
ran1 = len(os.listdir(marks))
os.chdir(sys.argv[3])                      # the caller moves on (notebook cell, driver script)
cached = lab.is_cached(t)
try:
    second = lab.run_tasks([t], disable_progress=True, disable_top=True).get(t)
except Exception as ex:
    second = f'raised {type(ex).__name__}'
print(json.dumps(dict(cached=cached, ran_again=len(os.listdir(marks)) - ran1, same=(second == first))))
"""


def relative_root_then_chdir():
    with tempfile.TemporaryDirectory() as top:
        a, b, marks = (os.path.join(top, x) for x in ('a', 'b', 'marks'))
        for x in (a, b, marks):
            os.mkdir(x)
        script = os.path.join(top, 'c06_rel.py')
        open(script, 'w').write(REL_CHILD)
        env = dict(os.environ)
        cp = subprocess.run([sys.executable, script, marks, a, b], capture_output=True, text=True, env=env, timeout=120)
        if cp.returncode != 0:
            raise RuntimeError(cp.stderr[-800:])
        r = json.loads(cp.stdout.strip().splitlines()[-1])
        if not r['cached'] or r['ran_again'] or not r['same']:
            return (f"Lab(storage='relstore') built in directory a, task executed and cached, then os.chdir(b): is_cached={r['cached']}, "
                    f"run() called again {r['ran_again']} time(s), stored value returned={r['same']} (the storage root followed the working directory)")
    return None


def main():
    ap = argparse.ArgumentParser()
    ap.add_argument('--obligation', default='')
    ap.add_argument('--repo', default='/repo')
    ap.add_argument('--prop', default='C06')
    ap.add_argument('--tier', default='quick')
    a = ap.parse_args()
    try:
        res = explore(a.tier)
    except Exception:
        res = dict(reproduced=False, error=traceback.format_exc()[-1500:])
    if a.obligation or True:
        if not a.obligation:
            print(json.dumps([dict(name='c06:two-run-cache-hit', bounded=True, bound='3-5 backend pairs (incl. a spawn first run with task types defined in the __main__ script) x 6 tasks, fresh interpreter with another hash seed; relative storage directory + chdir; 400 edge durations', violation=bool(res.get('reproduced')), witness=[res] if res.get('reproduced') else [])], default=str))
        else:
            print(json.dumps(res, default=str))
    return 1 if res.get('reproduced') else 0


if __name__ == '__main__':
    sys.exit(main())
