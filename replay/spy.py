"""A pass-through spy around the real runners, installed through the public `runner_backend=` argument."""
from __future__ import annotations

from labtech.runners import ForkRunnerBackend, SerialRunnerBackend, SpawnRunnerBackend
from labtech.types import ResultMeta, Runner, RunnerBackend


class SpyRunner(Runner):
    def __init__(self, inner, log):
        self.inner = inner
        self.log = log                  # list of events
        self.finished = []              # (task, ok)
        self.submitted = []

    def submit_task(self, task, task_name, use_cache):
        self.submitted.append((task, use_cache))
        self.log.append(('submit', task, use_cache))
        return self.inner.submit_task(task, task_name, use_cache)

    def wait(self, *, timeout_seconds):
        self.log.append(('wait', len(self.submitted) - len(self.finished)))
        for task, res in self.inner.wait(timeout_seconds=timeout_seconds):
            ok = isinstance(res, ResultMeta)
            self.finished.append((task, ok))
            self.log.append(('yield', task, ok))
            yield task, res

    def cancel(self):
        self.log.append(('cancel',))
        return self.inner.cancel()

    def stop(self):
        self.log.append(('stop',))
        return self.inner.stop()

    def close(self):
        self.log.append(('close', set(self.inner.results_map)))
        return self.inner.close()

    def pending_task_count(self):
        return self.inner.pending_task_count()

    def get_result(self, task):
        self.log.append(('get_result', task))
        return self.inner.get_result(task)

    def remove_results(self, tasks):
        tasks = list(tasks)
        r = self.inner.remove_results(tasks)
        self.log.append(('remove_results', tasks, set(self.inner.results_map)))
        return r

    def get_task_infos(self):
        return self.inner.get_task_infos()


class SpyBackend(RunnerBackend):
    def __init__(self, kind='serial'):
        self.kind = kind
        self.runners = []
        self.log = []

    def build_runner(self, *, context, storage, max_workers):
        inner = {'serial': SerialRunnerBackend, 'fork': ForkRunnerBackend, 'spawn': SpawnRunnerBackend}[self.kind]().build_runner(
            context=context, storage=storage, max_workers=max_workers)
        r = SpyRunner(inner, self.log)
        self.runners.append(r)
        return r
