"""Small task universe for native replays and bounded exploration (importable module => works under fork and spawn).

Tasks are parametric: `mode` decides what run() does, `deps` holds dependency tasks (any nesting is built by
the scenario generators).  Values are structural so a reference evaluator can predict them.
"""
from __future__ import annotations

import itertools
import os

import labtech


class Boom(Exception):
    pass


def _run(self):
    if self.mode == 'fail':
        raise Boom(f'{type(self).__name__}:{self.name}')
    if self.mode == 'fail0':          # an exception WITHOUT a message (str(ex) == ''), as a bare assert / raise ValueError() gives
        raise ValueError()
    if self.mode == 'exit':
        raise SystemExit(3)
    if self.mode in ('slow', 'slower'):
        import time as _t
        md = os.environ.get('C14_MARKS')
        if md:
            open(os.path.join(md, f'start-{self.name}'), 'w').close()
        _t.sleep(0.3 if self.mode == 'slow' else 0.9)
        if md:
            open(os.path.join(md, f'end-{self.name}'), 'w').close()
    if self.mode == 'ignore':
        return (type(self).__name__, self.name, 'ignored-deps')
    return (type(self).__name__, self.name, tuple(d.result for d in self.deps))


@labtech.task(cache=None)
class A:
    name: str
    deps: tuple = ()
    mode: str = 'ok'
    run = _run


@labtech.task(cache=None, max_parallel=1)
class B:
    name: str
    deps: tuple = ()
    mode: str = 'ok'
    run = _run


@labtech.task
class K:          # cacheable
    name: str
    deps: tuple = ()
    mode: str = 'ok'
    run = _run


def expected_value(task):
    """Reference evaluator: sequential dependency-first value (None if the task or something it reads fails)."""
    if task.mode in ('fail', 'fail0', 'exit'):
        return None
    if task.mode == 'ignore':
        return (type(task).__name__, task.name, 'ignored-deps')
    vals = []
    for d in task.deps:
        v = expected_value(d)
        if v is None:
            return None
        vals.append(v)
    return (type(task).__name__, task.name, tuple(vals))


def closure(tasks):
    seen, order = set(), []

    def go(t):
        if t in seen:
            return
        seen.add(t)
        order.append(t)
        for d in t.deps:
            go(d)
    for t in tasks:
        go(t)
    return order


def scenarios_failures():
    """(name, requested tasks) -- DAGs of <= 4 tasks with every assignment of modes to the leaves."""
    out = []
    modes = ['ok', 'fail']
    for m1, m2 in itertools.product(modes, modes):
        for top in ('ok', 'ignore'):
            for T in (A, K):
                d1, d2 = T('d1', (), m1), T('d2', (), m2)
                t = T('t', (d1, d2), top)
                out.append((f'{T.__name__}:t({m1},{m2})/{top}', [t]))
                u = T('u', (d2,), 'ok')
                out.append((f'{T.__name__}:t({m1},{m2})/{top}+u(d2)', [t, u]))
                out.append((f'{T.__name__}:u(d2)+t({m1},{m2})/{top}', [u, t]))
    return out


# ---- environment probes (C16)
MARK = 0          # mutated by the parent before run_tasks; a freshly spawned interpreter must not see the mutation


@labtech.task(cache=None)
class EnvProbe:
    name: str

    def filter_context(self, context):
        # a filter that TRANSFORMS as well as narrows (not idempotent): applying it twice, or not at all, is visible
        return {**{k: v for k, v in context.items() if k in ('shared', self.name)}, 'applied': context.get('applied', 0) + 1}

    def run(self):
        import multiprocessing
        import threading
        return dict(pid=os.getpid(), ppid=os.getppid(), mark=MARK, context=dict(self.context),
                    main_thread=threading.current_thread() is threading.main_thread(),
                    proc_name=multiprocessing.current_process().name)


@labtech.task(cache=None)
class ThreadProbe:
    name: str
    secs: float = 0.0
    deps: tuple = ()

    def run(self):
        import threading
        import time
        t0 = time.monotonic()
        time.sleep(self.secs)
        return dict(pid=os.getpid(), thread=threading.get_ident(), t0=t0, t1=time.monotonic())


# ---- a task whose outcome depends on the Lab context (for multi-call histories over the SAME task objects)
@labtech.task(cache=None)
class X:
    name: str
    deps: tuple = ()

    def run(self):
        if self.context.get('fail') == self.name:
            raise Boom(self.name)
        return (self.name, self.context.get('gen'), tuple(d.result for d in self.deps))


@labtech.task
class K2:          # cacheable environment probe
    name: str

    def filter_context(self, context):
        # a filter that TRANSFORMS as well as narrows (not idempotent): applying it twice, or not at all, is visible
        return {**{k: v for k, v in context.items() if k in ('shared', self.name)}, 'applied': context.get('applied', 0) + 1}

    def run(self):
        return dict(pid=os.getpid(), context=dict(self.context))


@labtech.task
class Selfie:          # its result contains a task object (itself), which the pickle cache stores
    name: str

    def run(self):
        return {'me': self, 'name': self.name}


# ---- a cacheable task that leaves one mark file per execution (visible across worker processes)
@labtech.task
class KC:
    name: str
    deps: tuple = ()

    def run(self):
        d = os.environ.get('EXPLORE_EXEC_DIR')
        if d:
            open(os.path.join(d, f'{self.name}-{os.getpid()}-{len(os.listdir(d))}'), 'w').close()
        return ('KC', self.name, tuple(x.result for x in self.deps))


@labtech.task
class KV:      # cacheable, one free parameter (any supported value), one mark file per execution
    name: str
    v: object = None

    def run(self):
        d = os.environ.get('EXPLORE_EXEC_DIR')
        if d:
            open(os.path.join(d, f'{self.name}-{os.getpid()}-{len(os.listdir(d))}'), 'w').close()
        return ('KV', self.name)


@labtech.task(cache=None)
class KN:      # like KC, but never cached
    name: str
    deps: tuple = ()

    def run(self):
        d = os.environ.get('EXPLORE_EXEC_DIR')
        if d:
            open(os.path.join(d, f'{self.name}-{os.getpid()}-{len(os.listdir(d))}'), 'w').close()
        return ('KN', self.name, tuple(x.result for x in self.deps))
