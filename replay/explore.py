"""Bounded native exploration through the public API -- the *bounded stand-in* of DESIGN 2.9 and the API-level
replay of 4.3.  Never counted as proved.  Bounds are stated in every result item.

Part 1 (coordinator level, deterministic): a schedule-controlling RunnerBackend passed through `runner_backend=`.
  It completes ONE chosen in-flight task per wait() call, so enumerating the choices enumerates every completion
  order.  Monitors (independent oracles, written from the property statements):
    C01 values == reference evaluator        C02 submit only after all spec-level deps finished; dep.result correct/raises
    C03 each value submitted at most once, only closure members, cached => use_cache and deps untouched
    C04 per-type in-flight <= max_parallel    C05 at every wait no runnable+allowed task is left unsubmitted
    C10 failures isolated / LabError          C11 no wait() with nothing in flight while tasks remain (stuck)
    C17 exact retention after every release batch; nothing held at a normal return
Part 2 (real process backends, timing based, small): concurrency ceilings, slot reuse after a worker death,
  termination under worker death (watchdog).
"""
from __future__ import annotations

import argparse
import itertools
import json
import logging
import os
import signal
import subprocess
import sys
import tempfile
import time
import traceback


# --------------------------------------------------------------------------- part 1
def spec_deps(task):
    """Independent of labtech's own search: every task object anywhere inside the fields."""
    from dataclasses import fields
    out = []

    def walk(v):
        if hasattr(type(v), '_lt') and hasattr(v, '_is_task'):
            out.append(v)
        elif isinstance(v, (list, tuple)):
            for x in v:
                walk(x)
        elif hasattr(v, 'items'):
            for x in v.values():
                walk(x)
    for f in fields(task):
        walk(getattr(task, f.name))
    return out


def make_backend(chooser, mon):
    from labtech.runners.base import run_or_load_task
    from labtech.tasks import get_direct_dependencies
    from labtech.types import Runner, RunnerBackend

    class CtlRunner(Runner):
        def __init__(self, *, context, storage, max_workers):
            self.context, self.storage, self.max_workers = context, storage, max_workers
            self.inflight = []
            self.results_map = {}
            mon['runner'] = self

        def submit_task(self, task, task_name, use_cache):
            mon['events'].append(('submit', task, use_cache))
            if task in [t for t, _, _ in self.inflight] or task in mon['submitted']:
                mon['violations'].append(('C03', f'{task} submitted more than once'))
            mon['submitted'].append(task)
            if not use_cache:
                for d in spec_deps(task):
                    if d not in mon['finished']:
                        mon['violations'].append(('C02', f'{task} submitted before its dependency {d} finished'))
            ty = type(task)
            n = sum(1 for t, _, _ in self.inflight if type(t) is ty) + 1
            if ty._lt.max_parallel is not None and n > ty._lt.max_parallel:
                mon['violations'].append(('C04', f'{n} tasks of type {ty.__name__} in flight, max_parallel={ty._lt.max_parallel}'))
            self.inflight.append((task, task_name, use_cache))

        def wait(self, *, timeout_seconds):
            mon['waits'] += 1
            mon['events'].append(('wait', [t for t, _, _ in self.inflight]))
            if mon.get('rest_hook'):
                mon['rest_hook'](self)
            if not self.inflight:
                mon['idle_waits'] += 1
                if mon['idle_waits'] > 3:
                    raise RuntimeError('STUCK: coordinator keeps waiting with nothing in flight')
                return
            mon['idle_waits'] = 0
            first = True
            while self.inflight and (first or mon.get('batch')):
              # batch mode: every task in flight completes within this one poll (several completions per wait())
              first = False
              i = chooser(len(self.inflight)) if not mon.get('batch') else 0
              task, name, use_cache = self.inflight.pop(i)
              yield from self._finish(task, name, use_cache)

        def _finish(self, task, name, use_cache):
            try:
                for d in get_direct_dependencies(task):
                    d._set_results_map(self.results_map)
                res = run_or_load_task(task=task, task_name=name, use_cache=use_cache,
                                       filtered_context=task.filter_context(self.context), storage=self.storage)
            except KeyboardInterrupt:
                raise
            except BaseException as ex:    # noqa
                mon['finished'].append(task)
                mon['events'].append(('yield', task, False))
                yield (task, ex)
            else:
                self.results_map[task] = res
                mon['finished'].append(task)
                mon['ok'].append(task)
                mon['events'].append(('yield', task, True))
                yield (task, res.meta)

        def cancel(self):
            self.inflight.clear()

        def stop(self):
            pass

        def close(self):
            mon['events'].append(('close', set(self.results_map)))

        def pending_task_count(self):
            return len(self.inflight)

        def get_result(self, task):
            return self.results_map[task]

        def remove_results(self, tasks):
            for t in tasks:
                self.results_map.pop(t, None)
            mon['events'].append(('released', list(tasks), set(self.results_map)))

        def get_task_infos(self):
            return []

    class CtlBackend(RunnerBackend):
        def build_runner(self, *, context, storage, max_workers):
            return CtlRunner(context=context, storage=storage, max_workers=max_workers)
    return CtlBackend()


def scenarios(tier):
    """(name, requested tasks, pre-cached tasks)"""
    from replay.universe import A, B, K
    out = []
    # diamonds, shared and duplicated dependencies, requested tasks that are dependencies of other requested tasks
    for T, U in ((A, A), (A, B), (B, B), (K, K)):
        d1, d2 = U('d1'), U('d2')
        t1 = T('t1', (d1, d2))
        t2 = T('t2', (d2,))
        top = T('top', (t1, t2))
        out.append((f'{T.__name__}{U.__name__}:diamond', [top], []))
        out.append((f'{T.__name__}{U.__name__}:req-dep+dependent', [d2, t2, t1], []))
        out.append((f'{T.__name__}{U.__name__}:dup-instances', [T('x', (U('d1'), U('d1')))], []))
        out.append((f'{T.__name__}{U.__name__}:dup-instances-unread', [T('x', (U('d1'), U('d1')), 'ignore')], []))
        out.append((f'{T.__name__}{U.__name__}:flat3', [U('d1'), U('d2'), U('d3')], []))
        out.append((f'{T.__name__}{U.__name__}:equal-objects-at-different-depths', [U('d1'), T('m', (U('d1'),)), T('top2', (T('m', (U('d1'),)),))], []))
    # failures
    for T in (A, K):
        bad = T('bad', (), 'fail')
        ok = T('ok')
        out.append((f'{T.__name__}:fail-leaf', [T('dep', (bad, ok)), T('ign', (bad, ok), 'ignore'), ok], []))
        out.append((f'{T.__name__}:exit-leaf', [T('dep', (T('bad', (), 'exit'), ok)), ok], []))
        out.append((f'{T.__name__}:fail-without-message', [T('dep', (T('bad', (), 'fail0'), ok)), ok, T('bad2', (), 'fail0')], []))
        # a failure two and three levels below the top, and in the middle of a chain (every level above must still be dealt with)
        out.append((f'{T.__name__}:fail-deep', [T('top', (T('mid', (T('low', (bad,)), ok)),)), ok], []))
        out.append((f'{T.__name__}:fail-mid', [T('top', (T('mid', (ok,), 'fail'),)), T('side', (ok,))], []))
    # failures of a max_parallel-limited type with more work of that type pending
    out.append(('B:limited-type-failure', [B('bad', (), 'fail'), B('ok1'), B('ok2'), A('free')], []))
    out.append(('B:limited-type-failure-dep', [B('t', (B('bad', (), 'fail'),)), B('ok1')], []))
    # warm caches (only K is cacheable)
    d1, d2 = K('d1'), K('d2')
    t1 = K('t1', (d1, d2))
    out.append(('K:warm-top', [K('top', (t1,))], [t1]))
    out.append(('K:warm-mid', [K('top', (t1, d2))], [d1]))
    out.append(('K:warm-all', [t1], [t1, d1, d2]))
    # a cached task FOLLOWS an un-cached one that has dependencies, in the request list and one level down (a task served from
    # the cache waits for nothing, and nothing is kept for it)
    out.append(('K:cached-after-uncached', [K('u', (K('d'),)), K('c')], [K('c')]))
    out.append(('K:cached-after-uncached-below', [K('top', (K('u', (K('d'),)), K('c', (K('e'),))))], [K('c', (K('e'),))]))
    if tier == 'thorough':
        for T in (A, B):
            ds = [T(f'd{i}') for i in range(4)]
            out.append((f'{T.__name__}:fan4', [T('t', tuple(ds))] + ds[:2], []))
    return out


def run_schedule(tasks, cached, prefix, continue_on_failure=True, batch=False):
    """Run one schedule (list of choice indices; beyond the prefix always 0). Returns (monitor, branching factors)."""
    import labtech
    from replay.universe import closure, expected_value
    logging.getLogger('labtech').setLevel(logging.CRITICAL)
    factors = []

    def chooser(n):
        k = len(factors)
        factors.append(n)
        return prefix[k] if k < len(prefix) else 0
    mon = dict(events=[], violations=[], submitted=[], finished=[], ok=[], waits=0, idle_waits=0, batch=batch)

    def rest_hook(runner):
        st = mon.get('closure_all')
        if st is None:
            return
        infl = [t for t, _, _ in runner.inflight]
        for t in st:
            if t in mon['submitted']:
                continue
            if any(d not in mon['finished'] for d in mon['edges'].get(t, [])):
                continue
            ty = type(t)
            n = sum(1 for x in infl if type(x) is ty)
            if ty._lt.max_parallel is None or n < ty._lt.max_parallel:
                mon['violations'].append(('C05', f'coordinator waits although {t} is runnable (dependencies finished, {n} of its type in flight)'))
    mon['rest_hook'] = rest_hook
    with tempfile.TemporaryDirectory() as d:
        if cached:
            warm = labtech.Lab(storage=d, runner_backend='serial', continue_on_failure=True)
            warm.run_tasks(list(cached), disable_progress=True, disable_top=True)
        lab = labtech.Lab(storage=d, continue_on_failure=continue_on_failure, runner_backend=make_backend(chooser, mon), max_workers=2)
        # expected plan: closure through non-cached tasks only
        planned, edges = [], {}

        def plan(t):
            if t in planned:
                return
            planned.append(t)
            if lab.is_cached(t):
                edges[t] = []
                return
            edges[t] = [x for x in spec_deps(t)]
            for x in edges[t]:
                plan(x)
        for t in tasks:
            plan(t)
        mon['closure_all'], mon['edges'] = planned, edges
        cached_now = {t for t in planned if lab.is_cached(t)}
        result, raised = None, None
        try:
            result = lab.run_tasks(list(tasks), disable_progress=True, disable_top=True)
        except BaseException as ex:     # noqa
            raised = ex
        want = {}
        for t in tasks:
            v = expected_value(t)
            if v is not None:
                want[t] = v
        V = mon['violations']
        if raised is not None and 'STUCK' in str(raised):
            V.append(('C11', str(raised)))
        elif continue_on_failure:
            if raised is not None:
                V.append(('C10', f'run_tasks raised {type(raised).__name__}: {raised}'))
            else:
                if result != want:
                    V.append(('C01' if all(expected_value(t) is not None for t in closure(tasks)) else 'C10',
                              f'run_tasks returned {dict((str(k), v) for k, v in result.items())}, reference {dict((str(k), v) for k, v in want.items())}'))
                if list(result) != [t for t in dict.fromkeys(tasks) if t in want]:
                    V.append(('C01', 'keys are not the requested tasks in request order'))
        for t in mon['submitted']:
            if t not in planned:
                V.append(('C03', f'{t} was executed/loaded although nothing requested needs it'))
        for t in planned:
            if t not in mon['submitted'] and raised is None:
                V.append(('C10', f'{t} is needed but was never submitted'))
        for ev in mon['events']:
            if ev[0] == 'submit' and (ev[1] in cached_now) != ev[2]:
                V.append(('C03', f'{ev[1]}: use_cache={ev[2]} at submit but cached={ev[1] in cached_now} at plan time'))
        # C17 retention
        fin, ok = set(), set()
        for ev in mon['events']:
            if ev[0] == 'yield':
                fin.add(ev[1])
                if ev[2]:
                    ok.add(ev[1])
            if ev[0] == 'released':
                held = ev[2]
                for dt in ok:
                    needed = any((dt in edges.get(t, [])) and (t not in fin) for t in planned)
                    if dt in held and not needed:
                        V.append(('C17', f'{dt} still held after the release batch although no direct dependent is unfinished'))
                    if dt not in held and needed:
                        V.append(('C17', f'{dt} released while a direct dependent is unfinished'))
            if ev[0] == 'close' and raised is None and ev[1]:
                V.append(('C17', f'runner still holds {[str(t) for t in ev[1]]} at normal return'))
        # C03 result_meta on every instance among requested tasks and parameters of executed tasks
        if raised is None:
            for t in tasks:
                if t in ok and t.result_meta is None:
                    V.append(('C03', f'requested instance {t} has no result_meta'))
            for t in planned:
                if t in ok and t not in cached_now:
                    for x in spec_deps(t):
                        if x in ok and x.result_meta is None:
                            V.append(('C03', f'dependency instance {x} inside {t} has no result_meta'))
    return mon, factors


def explore_controlled(tier, budget_s):
    t0 = time.time()
    n_sched = 0
    found = []
    truncated = False
    for name, tasks, cached in scenarios(tier):
        # one schedule per scenario in which every poll reports ALL tasks in flight (batched completions)
        monb, _ = run_schedule(tasks, cached, [], batch=True)
        n_sched += 1
        for prop, msg in monb['violations']:
            found.append(dict(prop=prop, scenario=name + '/batched-polls', schedule='all in flight complete in each poll', message=msg))
        stack = [[]]
        seen = 0
        while stack:
            prefix = stack.pop()
            mon, factors = run_schedule(tasks, cached, prefix)
            n_sched += 1
            seen += 1
            for prop, msg in mon['violations']:
                found.append(dict(prop=prop, scenario=name, schedule=prefix, message=msg))
            # expand the first undecided choice point after the prefix
            for k in range(len(prefix), len(factors)):
                for c in range(1, factors[k]):
                    stack.append(prefix + [0] * (k - len(prefix)) + [c])
            if seen > (400 if tier == 'thorough' else 60) or time.time() - t0 > budget_s:
                truncated = True
                break
        if time.time() - t0 > budget_s:
            truncated = True
            break
    return found, n_sched, truncated


def explore_multicall():
    """Histories of several run_tasks calls over the SAME task objects (notebook-style reuse): every call must read the
    dependencies' results of THAT call; a dependency that failed in this call must raise, not yield an earlier value."""
    import labtech
    from replay.universe import X
    logging.getLogger('labtech').setLevel(logging.CRITICAL)
    found = []
    for backends in (['serial', 'serial', 'serial'], ['serial', 'fork', 'serial']):
        a, b = X('a'), X('b')
        top = X('top', (a, b))
        hist = [dict(gen=1), dict(gen=2, fail='a'), dict(gen=3)]
        for k, (ctx, backend) in enumerate(zip(hist, backends)):
            with tempfile.TemporaryDirectory() as d:
                lab = labtech.Lab(storage=d, runner_backend=backend, continue_on_failure=True, context=ctx, max_workers=2)
                res = lab.run_tasks([top], disable_progress=True, disable_top=True)
            if ctx.get('fail'):
                if top in res:
                    found.append(dict(prop='C02', scenario=f'multicall/{"-".join(backends)}', message=f'call {k + 1}: dependency a failed in this call but top still returned {res[top]!r} (a value from an earlier call was read)'))
            else:
                want = ('top', ctx['gen'], (('a', ctx['gen'], ()), ('b', ctx['gen'], ())))
                if res.get(top) != want:
                    found.append(dict(prop='C02', scenario=f'multicall/{"-".join(backends)}', message=f'call {k + 1}: top read {res.get(top)!r}, this call\'s dependency results give {want!r}'))
    found += explore_warm_cache()
    return found


def explore_warm_cache():
    """Two run_tasks calls in ONE interpreter over a caching storage: whatever the first call executed and cached must be
    loaded, not executed again, by the second call -- for the same Lab object, for a new Lab on the same directory, for
    the same task objects and for new equal ones, whichever backends the two calls use (the save may have happened in a
    worker process)."""
    import labtech
    from replay.universe import KC
    logging.getLogger('labtech').setLevel(logging.CRITICAL)
    found = []
    for b1, b2 in (('fork', 'fork'), ('fork', 'serial'), ('serial', 'fork'), ('serial', 'serial')):
        for same_lab in (True, False):
            with tempfile.TemporaryDirectory() as d, tempfile.TemporaryDirectory() as marks:
                os.environ['EXPLORE_EXEC_DIR'] = marks
                try:
                    def build():
                        leaf1, leaf2 = KC('l1'), KC('l2')
                        mid = KC('m', (leaf1, leaf2))
                        return [KC('t', (mid, leaf1)), KC('u', (leaf2,))]
                    tasks = build()
                    lab = labtech.Lab(storage=d, runner_backend=b1, max_workers=2)
                    r1 = lab.run_tasks(tasks, disable_progress=True, disable_top=True)
                    n1 = len(os.listdir(marks))
                    lab2 = lab if same_lab else labtech.Lab(storage=d, runner_backend=b2, max_workers=2)
                    if same_lab:
                        lab2.runner_backend = labtech.Lab(storage=d, runner_backend=b2).runner_backend
                    tasks2 = tasks if same_lab else build()
                    r2 = lab2.run_tasks(tasks2, disable_progress=True, disable_top=True)
                    n2 = len(os.listdir(marks))
                finally:
                    os.environ.pop('EXPLORE_EXEC_DIR', None)
                if n1 != 5:
                    found.append(dict(prop='C03', scenario=f'warm-cache/{b1}-{b2}', message=f'the cold call executed {n1} tasks, the closure has 5'))
                elif n2 != n1:
                    found.append(dict(prop='C03', scenario=f'warm-cache/{b1}-{b2}/{"same Lab" if same_lab else "new Lab"}',
                                      message=f'the second run_tasks call executed {n2 - n1} task(s) again although every result was cached by the first call'))
                elif [r2[t] for t in tasks2] != [r1[t] for t in tasks]:
                    found.append(dict(prop='C06', scenario=f'warm-cache/{b1}-{b2}', message='the warm call returned other values than the cold call'))
                if found:
                    return found
    found += explore_cache_histories()
    if not found:
        found += explore_more_histories()
    return found


def explore_cache_histories():
    """Longer histories over one caching storage, counting executions by mark files:
      (a) cold run, then bust_cache=True: everything the request needs is executed again, dependencies first, values right;
      (b) a cached task with an un-cached dependency is later reached through two equal-but-distinct instances: it is loaded,
          and its dependency is neither executed nor needed."""
    import labtech
    from replay.universe import KC, KN
    logging.getLogger('labtech').setLevel(logging.CRITICAL)
    found = []

    def names(marks):
        return sorted(f.split('-')[0] for f in os.listdir(marks))
    for backend in ('serial', 'fork'):
        with tempfile.TemporaryDirectory() as d, tempfile.TemporaryDirectory() as marks:
            os.environ['EXPLORE_EXEC_DIR'] = marks
            try:
                leaf = KC('l')
                mid = KC('m', (leaf,))
                top = KC('t', (mid, leaf))
                lab = labtech.Lab(storage=d, runner_backend=backend, max_workers=2)
                r1 = lab.run_tasks([top], disable_progress=True, disable_top=True)
                n1 = names(marks)
                try:
                    r2 = lab.run_tasks([top], bust_cache=True, disable_progress=True, disable_top=True)
                except BaseException as ex:    # noqa
                    r2 = {'raised': f'{type(ex).__name__}: {str(ex)[:150]}'}
                n2 = names(marks)
            finally:
                os.environ.pop('EXPLORE_EXEC_DIR', None)
            if n1 != ['l', 'm', 't']:
                found.append(dict(prop='C03', scenario=f'history/{backend}/cold', message=f'the cold run executed {n1}, the closure is l, m, t'))
            elif n2 != ['l', 'l', 'm', 'm', 't', 't'] or r2.get(top) != r1.get(top):
                found.append(dict(prop='C02' if 'raised' in r2 or r2.get(top) != r1.get(top) else 'C03', scenario=f'history/{backend}/bust_cache after a cold run',
                                  message=f'run_tasks(bust_cache=True) over a fully cached chain executed {n2[len(n1):] if len(n2) >= len(n1) else n2} '
                                          f'(expected l, m, t once more, dependencies before dependents) and returned {r2.get(top, r2.get("raised"))!r}'))
        if found:
            return found
        with tempfile.TemporaryDirectory() as d, tempfile.TemporaryDirectory() as marks:
            os.environ['EXPLORE_EXEC_DIR'] = marks
            try:
                lab = labtech.Lab(storage=d, runner_backend=backend, max_workers=2)
                lab.run_tasks([KC('c', (KN('d'),))], disable_progress=True, disable_top=True)
                n1 = names(marks)
                p1 = KC('p1', (KC('c', (KN('d'),)),))
                p2 = KC('p2', (KC('c', (KN('d'),)),))           # an equal but distinct instance of the cached task
                lab2 = labtech.Lab(storage=d, runner_backend=backend, max_workers=2)
                r = lab2.run_tasks([p1, p2], disable_progress=True, disable_top=True)
                n2 = names(marks)
            finally:
                os.environ.pop('EXPLORE_EXEC_DIR', None)
            extra = list(n2)
            for x in n1:
                extra.remove(x)
            if sorted(extra) != ['p1', 'p2']:
                found.append(dict(prop='C03', scenario=f'history/{backend}/cached task reached through two equal instances',
                                  message=f'c is cached and its dependency d is not needed by anything that runs, yet the second call executed {sorted(extra)} (expected only p1, p2)'))
            elif p1 not in r or p2 not in r:
                found.append(dict(prop='C01', scenario=f'history/{backend}/cached task reached through two equal instances', message='a parent of the cached task did not get a result'))
        if found:
            return found
    return found


def explore_more_histories():
    """(c) a cached task WITH dependencies whose stored result can no longer be read: it was planned as a load, so its
           dependencies are not part of this call -- its run() must not be entered (the task fails instead);
       (d) equal tasks that serialise differently (1 / 1.0 / True, a dict with its keys in another order) requested
           together are ONE task: one execution;
       (e) the results map drains (an independent task finishes first and is released) while another chain is still to
           run: the later dependent must still find its dependency's result -- under every backend."""
    import labtech
    from replay.universe import KC, KN, KV
    logging.getLogger('labtech').setLevel(logging.CRITICAL)
    found = []

    def names(marks):
        return sorted(f.split('-')[0] for f in os.listdir(marks))
    for backend in ('serial', 'fork'):
        with tempfile.TemporaryDirectory() as d, tempfile.TemporaryDirectory() as marks:
            os.environ['EXPLORE_EXEC_DIR'] = marks
            try:
                leaf = KC('l')
                top = KC('t', (leaf,))
                lab = labtech.Lab(storage=d, runner_backend=backend, max_workers=2, continue_on_failure=True)
                lab.run_tasks([top], disable_progress=True, disable_top=True)
                lab.uncache_tasks([leaf])
                n1 = names(marks)
                import glob as _glob
                for f in _glob.glob(os.path.join(d, top.cache_key, '*')):
                    if not f.endswith('metadata.json'):
                        with open(f, 'r+b') as fh:
                            fh.truncate(3)
                r = lab.run_tasks([top], disable_progress=True, disable_top=True)
                n2 = names(marks)
            finally:
                os.environ.pop('EXPLORE_EXEC_DIR', None)
            if n2 != n1:
                msg = (f'the stored result of the cached task t could not be read; its run() was entered ({n2[len(n1):]} executed) in a call in which its '
                       f'dependency l neither ran nor was loaded (t was planned as a cache load)')
                found.append(dict(prop='C02', scenario=f'history/{backend}/unreadable cached entry', message=msg))
                found.append(dict(prop='C03', scenario=f'history/{backend}/unreadable cached entry', message=msg))
            elif top in r:
                found.append(dict(prop='C06', scenario=f'history/{backend}/unreadable cached entry', message=f'an unreadable entry was reported as a cache hit with value {r[top]!r}'))
        if found:
            return found
        with tempfile.TemporaryDirectory() as d, tempfile.TemporaryDirectory() as marks:
            os.environ['EXPLORE_EXEC_DIR'] = marks
            try:
                lab = labtech.Lab(storage=d, runner_backend=backend, max_workers=2)
                variants = [KV('v', ({'a': 1, 'b': 2}, 1)), KV('v', ({'b': 2, 'a': 1}, 1.0)), KV('v', ({'a': 1, 'b': 2}, True))]
                r = lab.run_tasks(variants, disable_progress=True, disable_top=True)
                n = names(marks)
            finally:
                os.environ.pop('EXPLORE_EXEC_DIR', None)
            if variants[0] == variants[1] == variants[2] and n != ['v']:
                found.append(dict(prop='C03', scenario=f'history/{backend}/equal tasks that serialise differently',
                                  message=f'three == tasks (dict keys in another order; 1 / 1.0 / True) requested together were executed {len(n)} times (equal tasks are one task)'))
        if found:
            return found
    for backend in ('serial', 'fork', 'spawn'):
        for workers in (1, 3):
            with tempfile.TemporaryDirectory() as d:
                lab = labtech.Lab(storage=d, runner_backend=backend, max_workers=workers, continue_on_failure=True)
                q, p = KN('q'), KN('p')
                t = KN('t', (p,))
                r = lab.run_tasks([q, t], disable_progress=True, disable_top=True)
            want = ('KN', 't', (('KN', 'p', ()),))
            if r.get(t) != want:
                found.append(dict(prop='C02', scenario=f'history/{backend}/max_workers={workers}/independent task finishes first',
                                  message=f'run_tasks([q, t(p)]): t should read its dependency p\'s result of this call and return {want!r}; got {r.get(t, "<t failed>")!r}'))
                return found
    return found


# --------------------------------------------------------------------------- part 2: real process backends
REAL = r'''
import os, sys, time, signal, json, tempfile, logging
import labtech
logging.getLogger('labtech').setLevel(logging.CRITICAL)
MARKS = os.environ['EXPLORE_MARKS']

def mark(tag):
    with open(os.path.join(MARKS, f'{time.time():.4f}-{os.getpid()}-{tag}'), 'w'):
        pass

@labtech.task
class Slow:
    n: int
    secs: float = 0.6
    def run(self):
        mark(f'start-{type(self).__name__}-{self.n}')
        time.sleep(self.secs)
        mark(f'end-{type(self).__name__}-{self.n}')
        return self.n

@labtech.task(cache=None, max_parallel=2)
class Lim(object):
    n: int
    secs: float = 0.6
    def run(self):
        mark(f'start-{type(self).__name__}-{self.n}')
        time.sleep(self.secs)
        mark(f'end-{type(self).__name__}-{self.n}')
        return self.n

@labtech.task(max_parallel=1)
class CLim:          # cacheable AND limited: a bust_cache re-run of cached instances is a real execution and stays limited
    n: int
    secs: float = 0.5
    def run(self):
        mark(f'start-{type(self).__name__}-{self.n}')
        time.sleep(self.secs)
        mark(f'end-{type(self).__name__}-{self.n}')
        return self.n

@labtech.task(cache=None)
class Die:
    n: int
    how: str = 'kill'
    def run(self):
        mark(f'start-Die-{self.n}')
        if self.how == 'exit':          # the worker ends by itself without reporting anything
            os._exit(3)
        if self.how == 'exit0':
            os._exit(0)
        if self.how == 'unpicklable':   # the result cannot be sent back: the worker ends with a traceback and no report
            return (x for x in ())
        os.kill(os.getpid(), signal.SIGKILL)

@labtech.task
class Quick:
    n: int
    def run(self):
        mark(f'start-Quick-{self.n}')
        mark(f'end-Quick-{self.n}')
        return self.n

def main():
    scen, backend, workers = sys.argv[1], sys.argv[2], int(sys.argv[3])
    tasks = {
        'ceiling': [Slow(i) for i in range(6)] + [Lim(i) for i in range(5)],
        'quick-then-slow': [Quick(i) for i in range(4)] + [Slow(i, 1.0) for i in range(6)],
        'death-then-work': [Die(0)] + [Slow(i, 0.5) for i in range(4)],
        'all-die-one-worker': [Die(0), Quick(1), Quick(2)],
        'death-with-monitor': [Die(0), Slow(1, 0.5), Quick(2), Die(3)],
        'bust-limited': [CLim(i) for i in range(4)] + [Slow(9, 0.5)],
        'self-exit': [Die(0, 'exit'), Die(1, 'exit0'), Die(2, 'unpicklable'), Quick(3), Slow(4, 0.5)],
    }[scen]
    with tempfile.TemporaryDirectory() as d:
        storage = d
        if scen == 'quick-then-slow':
            from labtech.storage import LocalStorage
            class SlowStorage(LocalStorage):          # a slow backing store keeps the coordinator busy between submissions
                def exists(self, key):
                    time.sleep(0.3)
                    return super().exists(key)
            storage = SlowStorage(d)
        lab = labtech.Lab(storage=storage, runner_backend=backend, max_workers=workers, continue_on_failure=True)
        bust = False
        if scen == 'bust-limited':
            # first fill the cache (marks of that run are discarded), then re-execute everything with bust_cache=True
            lab.run_tasks(tasks, disable_progress=True, disable_top=True)
            for f in os.listdir(MARKS):
                if not f.endswith('.py'):
                    os.remove(os.path.join(MARKS, f))
            bust = True
        t0 = time.time()
        show = scen == 'death-with-monitor'       # progress bars and the top-style monitor enabled (the run_tasks defaults)
        try:
            res = lab.run_tasks(tasks, bust_cache=bust, disable_progress=not show, disable_top=not show)
        except BaseException as ex:
            print()
            print(json.dumps(dict(returned=-1, raised=f'{type(ex).__name__}: {ex}'[:200], secs=round(time.time() - t0, 2))))
            return
        print()
        print(json.dumps(dict(returned=len(res), secs=round(time.time() - t0, 2))))

if __name__ == '__main__':
    main()
'''


def run_real(scen, backend, workers, timeout=40):
    marks = tempfile.mkdtemp(prefix='labtech-marks-')
    script = os.path.join(marks, 'real_scenario.py')
    open(script, 'w').write(REAL)
    env = dict(os.environ, EXPLORE_MARKS=marks)
    t0 = time.time()
    try:
        cp = subprocess.run([sys.executable, script, scen, backend, str(workers)], capture_output=True, text=True, timeout=timeout, env=env)
        hung = False
        out = cp.stdout.strip().splitlines()[-1] if cp.stdout.strip() else cp.stderr[-300:]
    except subprocess.TimeoutExpired:
        hung, out = True, ''
    evs = []
    for f in sorted(os.listdir(marks)):
        if f.endswith('.py'):
            continue
        ts, pid, tag = f.split('-', 2)
        evs.append((float(ts), tag))
    import shutil
    shutil.rmtree(marks, ignore_errors=True)
    # concurrency profile
    running, peak, peak_by = {}, 0, {}
    for ts, tag in evs:
        kind, cls, n = tag.split('-')
        if cls == 'Die':
            continue
        if kind == 'start':
            running[(cls, n)] = ts
        else:
            running.pop((cls, n), None)
        peak = max(peak, len(running))
        for c in set(k[0] for k in running):
            peak_by[c] = max(peak_by.get(c, 0), sum(1 for k in running if k[0] == c))
    return dict(hung=hung, out=out, peak=peak, peak_by=peak_by, secs=round(time.time() - t0, 1), events=len(evs), evs=evs)


def serial_thread():
    """The serial backend executes one task at a time in the caller's process AND thread."""
    import threading
    import labtech
    import replay.universe as U
    logging.getLogger('labtech').setLevel(logging.CRITICAL)
    tasks = [U.ThreadProbe(f'p{i}', 0.05) for i in range(4)]
    tasks.append(U.ThreadProbe('top', 0.0, tuple(tasks[:2])))
    with tempfile.TemporaryDirectory() as d:
        lab = labtech.Lab(storage=d, runner_backend='serial', max_workers=3)
        res = lab.run_tasks(tasks, disable_progress=True, disable_top=True)
    spans = []
    for t in tasks:
        r = res.get(t)
        if r is None:
            return f'serial: {t} has no result'
        if r['pid'] != os.getpid() or r['thread'] != threading.get_ident():
            return f'serial backend: {t} ran in pid {r["pid"]} thread {r["thread"]}; the caller of run_tasks is pid {os.getpid()} thread {threading.get_ident()}'
        spans.append((r['t0'], r['t1']))
    spans.sort()
    for (a0, a1), (b0, b1) in zip(spans, spans[1:]):
        if b0 < a1:
            return 'serial backend: two tasks were executing at the same time'
    return None


def explore_real(tier, props):
    found, runs = [], 0
    backends = ['fork'] if tier == 'quick' else ['fork', 'spawn']
    for backend in backends:
        if props & {'C04', 'C05'}:
            r = run_real('ceiling', backend, 3)
            runs += 1
            if r['peak'] > 3:
                found.append(dict(prop='C04', scenario=f'real/{backend}/ceiling', message=f'{r["peak"]} task processes executing at once with max_workers=3'))
            if r['peak_by'].get('Lim', 0) > 2:
                found.append(dict(prop='C04', scenario=f'real/{backend}/ceiling', message=f'{r["peak_by"]["Lim"]} tasks of a max_parallel=2 type executing at once'))
            for _retry in range(2):        # a lower bound on observed overlap is timing-sensitive on a loaded machine: confirm before reporting
                if not r['hung'] and r['peak'] < 3:
                    r2 = run_real('ceiling', backend, 3)
                    runs += 1
                    if r2['peak'] >= 3:
                        r = dict(r, peak=r2['peak'])
            if not r['hung'] and r['peak'] < 3:
                found.append(dict(prop='C05', scenario=f'real/{backend}/ceiling', message=f'never more than {r["peak"]} tasks executing with max_workers=3 and 11 runnable tasks'))
            r = run_real('quick-then-slow', backend, 2)
            runs += 1
            if r['peak'] > 2:
                found.append(dict(prop='C04', scenario=f'real/{backend}/quick-then-slow', message=f'{r["peak"]} task processes executing at once with max_workers=2'))
        if props & {'C04'}:
            r = run_real('bust-limited', backend, 4)
            runs += 1
            if r['peak_by'].get('CLim', 0) > 1:
                found.append(dict(prop='C04', scenario=f'real/{backend}/bust-limited', message=f'run_tasks(bust_cache=True) over cached tasks of a max_parallel=1 type: {r["peak_by"]["CLim"]} of them executing at once'))
            elif r['events'] < 10 and not r['hung']:
                found.append(dict(prop='C03', scenario=f'real/{backend}/bust-limited', message=f'run_tasks(bust_cache=True) over 5 cached tasks left {r["events"]} start/end marks (expected 10): {r["out"][:150]}'))
            w = serial_thread()
            runs += 1
            if w:
                found.append(dict(prop='C04', scenario='real/serial/thread', message=w))
        if props & {'C05', 'C11', 'C10', 'C03'}:
            r = run_real('death-then-work', backend, 2)
            runs += 1
            starts = [tag for _, tag in r['evs'] if tag.startswith('start-Die-')]
            if len(starts) > 1:
                found.append(dict(prop='C03', scenario=f'real/{backend}/death-then-work', message=f'run() of a task whose worker process was killed was entered {len(starts)} times within one run_tasks call (submitted once)'))
            if not props & {'C05', 'C11', 'C10'}:
                continue
            if r['hung']:
                found.append(dict(prop='C11', scenario=f'real/{backend}/death-then-work', message='run_tasks did not terminate within 40s after a worker was killed'))
            elif r['peak'] < 2 and run_real('death-then-work', backend, 2)['peak'] < 2 and run_real('death-then-work', backend, 2)['peak'] < 2:
                found.append(dict(prop='C05', scenario=f'real/{backend}/death-then-work', message=f'after a worker died only {r["peak"]} task executed at a time with max_workers=2 and 4 runnable tasks'))
            r = run_real('death-with-monitor', backend, 2, timeout=40)
            runs += 1
            if r['hung']:
                found.append(dict(prop='C11', scenario=f'real/{backend}/death-with-monitor', message='run_tasks (monitor and progress bars enabled) did not terminate within 40s after two workers were killed'))
            elif '"returned": 2' not in r['out']:
                found.append(dict(prop='C10', scenario=f'real/{backend}/death-with-monitor',
                                  message=f'with the task monitor enabled and two killed task processes, run_tasks(continue_on_failure=True) should return the 2 healthy tasks; got {r["out"][:200]}'))
            r = run_real('self-exit', backend, 2, timeout=40)
            runs += 1
            if r['hung']:
                found.append(dict(prop='C11', scenario=f'real/{backend}/self-exit', message='run_tasks did not terminate within 40s after task processes ended by themselves without reporting (os._exit(3), os._exit(0), unpicklable result)'))
            elif '"returned": 2' not in r['out']:
                found.append(dict(prop='C10', scenario=f'real/{backend}/self-exit', message=f'three task processes ended without reporting; run_tasks(continue_on_failure=True) should return the 2 healthy tasks; got {r["out"][:200]}'))
            r = run_real('all-die-one-worker', backend, 1, timeout=25)
            runs += 1
            if r['hung']:
                found.append(dict(prop='C11', scenario=f'real/{backend}/all-die-one-worker', message='run_tasks did not terminate within 25s after the only worker was killed with tasks still queued'))
            elif '"returned": 2' not in r['out']:
                found.append(dict(prop='C10', scenario=f'real/{backend}/all-die-one-worker', message=f'unexpected outcome {r["out"][:200]}'))
    return found, runs


def replay_died_for_real():
    """Function-level replay of ProcessExecutor._consume_result_queue/ensures[DIED-FOR-REAL]: a worker that puts its
    result and exits right AFTER the result queue was found empty.  The real method is called on a real ProcessExecutor
    whose queue and process are scripted doubles (no timing involved): is_alive() is True until the queue has reported
    Empty once, the item becomes available at that same moment.  A future failed with TaskDiedError while its result
    is on the queue is the witness."""
    import queue as _q
    from labtech.exceptions import TaskDiedError
    from labtech.runners.process import Future, ProcessExecutor
    ex = ProcessExecutor.__new__(ProcessExecutor)
    ex.mp_context, ex.max_workers = None, 1
    ex._pending_future_to_thunk = {}
    state = dict(empty_seen=False)

    class Q:
        def __init__(self):
            self.items = []

        def get(self, block=True, timeout=None):
            if state['empty_seen'] and self.items:
                return self.items.pop(0)
            state['empty_seen'] = True        # the worker puts its result and exits right after this poll
            raise _q.Empty

    class P:
        def is_alive(self):
            return not state['empty_seen']

        def terminate(self):
            pass
    fut = Future()
    ex._result_queue = Q()
    ex._result_queue.items.append((fut.id, 'the result'))
    ex._running_id_to_future_and_process = {fut.id: (fut, P())}
    ex._consume_result_queue(timeout_seconds=0)
    died = fut.done and isinstance(fut._ex, TaskDiedError)
    if died:
        return dict(prop='C01', scenario='function-level/_consume_result_queue', schedule='worker puts its result and exits between the last queue poll and the liveness sample',
                    message='the future was failed with TaskDiedError although its result is on the result queue (the task would be reported as died and dropped from run_tasks\' result)')
    # a second call must then deliver the result
    ex._consume_result_queue(timeout_seconds=0)
    if not (fut.done and fut._ex is None and fut._result == 'the result'):
        return dict(prop='C01', scenario='function-level/_consume_result_queue', schedule='second poll', message=f'result not delivered on the next poll (state {fut._state}, ex {fut._ex!r})')
    return None


def replay_worker_ceiling():
    """Function-level: the executor's worker ceiling is exactly the requested max_workers, or os.cpu_count() for None."""
    import os as _os
    from labtech.runners.process import ProcessExecutor
    import multiprocessing as _mp
    cpu = _os.cpu_count()
    for req in (None, 1, 2, cpu, cpu + 3, 4 * cpu + 1):
        ex = ProcessExecutor(mp_context=_mp.get_context('fork'), max_workers=req)
        want = cpu if req is None else req
        if ex.max_workers != want:
            return dict(prop='C04' if ex.max_workers > want else 'C05', scenario='function-level/ProcessExecutor.__init__', schedule=f'max_workers={req}',
                        message=f'ProcessExecutor(max_workers={req}) allows {ex.max_workers} worker processes on a {cpu}-CPU machine; the ceiling must be {want}')
    return None


def main():
    ap = argparse.ArgumentParser()
    ap.add_argument('--prop', default='')
    ap.add_argument('--repo', default='/repo')
    ap.add_argument('--tier', default='quick')
    ap.add_argument('--obligation', default='')
    a = ap.parse_args()
    items = []
    if 'the worker ceiling' in a.obligation:
        try:
            w = replay_worker_ceiling()
        except Exception:
            w = None
        print(json.dumps(dict(reproduced=bool(w), level='function', summary=(w['scenario'] + ' [' + w['schedule'] + ']: ' + w['message']) if w else 'worker ceiling as requested for every probed max_workers',
                              bounds=['max_workers in {None, 1, 2, cpu, cpu+3, 4*cpu+1}']), default=str))
        return 1 if w else 0
    if 'DIED-FOR-REAL' in a.obligation or '_consume_result_queue' in a.obligation:
        try:
            w = replay_died_for_real()
        except Exception:
            w = None
            items.append(dict(name='explore:died-for-real', violation=False, error=traceback.format_exc()[-1500:]))
        print(json.dumps(dict(reproduced=bool(w), level='function', summary=(w['scenario'] + ' [' + w['schedule'] + ']: ' + w['message']) if w else 'scripted poll/liveness interleaving: post-condition holds natively',
                              bounds=['one scripted interleaving (queue empty, then worker puts and exits)']), default=str))
        return 1 if w else 0
    try:
        found, n, trunc = explore_controlled(a.tier, 120 if a.tier == 'quick' else 900)
        mine = [f for f in found if not a.prop or f['prop'] == a.prop]
        if a.prop == 'C10':
            # failure isolation: in a scenario with a failing task, other runnable tasks being held back or the run getting stuck
            # IS the failure spreading (the monitors file it under C05/C11, which it also breaks)
            mine += [dict(f, prop='C10', message='after a task failed: ' + f['message']) for f in found if f['prop'] in ('C05', 'C11') and 'fail' in f['scenario'].lower()]
        items.append(dict(name='explore:controlled-schedules', bounded=True,
                          bound=f'{len(scenarios(a.tier))} scenarios of <= 5 tasks, every completion order one task per wait, plus one schedule per scenario in which each poll reports every task in flight (schedules run: {n}{", truncated by budget" if trunc else ""})',
                          violation=bool(mine), witness=mine[:3], other_properties=sorted({f['prop'] for f in found if f['prop'] != a.prop})))
        if a.prop in ('C02', 'C01', 'C03', 'C06', ''):
            f3 = explore_multicall()
            mine3 = [f for f in f3 if not a.prop or f['prop'] == a.prop or a.prop == 'C01']
            items.append(dict(name='explore:multi-call-histories', bounded=True, bound='2 histories of 3 run_tasks calls over the same task objects; 8 cold/warm call pairs over a caching storage (backend pairs x same/new Lab); bust_cache after a cold run; a cached task reached through two equal instances; an unreadable cached entry of a task with dependencies; == tasks that serialise differently; an independent task finishing first under serial/fork/spawn x max_workers 1/3',
                              violation=bool(mine3), witness=mine3[:3]))
        if a.prop in ('C01', 'C02', 'C03', ''):
            import replay.values as _V
            why, nshape = _V.check_discovery()
            items.append(dict(name='explore:dependency-discovery-shapes', bounded=True, bound=f'{nshape} task-bearing parameter shapes (sibling containers, repeated and equal objects, deep chains), checked against an independent walk and end to end',
                              violation=bool(why), witness=[dict(prop=a.prop or 'C02', scenario='dependency-discovery', message=why)] if why else []))
        if a.prop in ('C01', 'C10', ''):
            w = replay_died_for_real()
            items.append(dict(name='explore:poll-vs-liveness-order', bounded=True, bound='one scripted interleaving at function level (_consume_result_queue with scripted queue/process doubles)',
                              violation=bool(w), witness=[w] if w else []))
        if a.prop in ('C04', 'C05', ''):
            w = replay_worker_ceiling()
            mine_w = [w] if (w and (not a.prop or w['prop'] == a.prop or True)) else []
            items.append(dict(name='explore:worker-ceiling', bounded=True, bound='ProcessExecutor(max_workers) for max_workers in {None, 1, 2, cpu, cpu+3, 4*cpu+1}',
                              violation=bool(mine_w), witness=mine_w))
        if a.prop in ('C03', 'C04', 'C05', 'C10', 'C11', ''):
            found2, runs = explore_real(a.tier, {a.prop} if a.prop else {'C03', 'C04', 'C05', 'C10', 'C11'})
            mine2 = [f for f in found2 if not a.prop or f['prop'] == a.prop]
            items.append(dict(name='explore:real-process-backends', bounded=True,
                              bound=f'{runs} timed runs with real worker processes (peak concurrency from start/end marks; worker death by SIGKILL, os._exit and an unpicklable result; watchdog)',
                              violation=bool(mine2), witness=mine2[:3]))
    except Exception:
        items.append(dict(name='explore', bounded=True, violation=False, error=traceback.format_exc()[-1500:]))
    if a.obligation:       # replay mode: one JSON object
        w = [x for it in items for x in it.get('witness', [])]
        print(json.dumps(dict(reproduced=bool(w), level='api', summary=(w[0]['scenario'] + ' ' + str(w[0].get('schedule', '')) + ': ' + w[0]['message']) if w else '',
                              bounds=[it.get('bound') for it in items]), default=str))
        return 1 if w else 0
    print(json.dumps(items, default=str))
    return 0


if __name__ == '__main__':
    sys.exit(main())
