"""Native replay for C12 (failed save) and C13 (killed mid-save): fault / crash injection through the public
`storage=` extension point.

A `LocalStorage` subclass counts the storage events of one save (file_handle calls, write calls, close calls).
Fault mode (C12): run the save once per event index with an OSError raised at that event; also an unpicklable
result nested at depth.  Crash mode (C13): the save runs in a forked child that calls os._exit at the event
(buffered data lost) or right after it.  Oracle, in a fresh Lab over the same directory: if is_cached(task) (or
cached_tasks lists it) then run_tasks must LOAD a complete correct value (the new one; after an overwrite the old or
the new one).
"""
from __future__ import annotations

import argparse
import json
import logging
import os
import sys
import tempfile
import traceback

import labtech
from labtech.storage import LocalStorage


class Boom(OSError):
    pass


class EventStorage(LocalStorage):
    """Counts events; at event number `at` either raises (fault) or exits the process (crash)."""

    def __init__(self, d, at=None, crash=False):
        super().__init__(d)
        self.events = []
        self.at, self.crash = at, crash
        self.armed = False

    def _event(self, name):
        if not self.armed:
            return
        self.events.append(name)
        if self.at is not None and len(self.events) == self.at:
            if self.crash:
                os._exit(17)
            raise Boom(f'injected at event {self.at}: {name}')

    def file_handle(self, key, filename, *, mode='r'):
        self._event(f'file_handle({filename},{mode})')
        if 'w' in mode and self.armed:
            # a second fault point INSIDE the provided storage: the operating system's open() of the file fails
            # (EMFILE, ENOSPC, EROFS ...) after whatever LocalStorage.file_handle did before opening
            import pathlib
            orig_open = pathlib.Path.open
            st = self

            def failing_open(p, *a, **k):
                st._event(f'os-open({filename})')
                return orig_open(p, *a, **k)
            pathlib.Path.open = failing_open
            try:
                h = super().file_handle(key, filename, mode=mode)
            finally:
                pathlib.Path.open = orig_open
        else:
            h = super().file_handle(key, filename, mode=mode)
        return HandleProxy(h, self, filename) if ('w' in mode and self.armed) else h


class HandleProxy:
    def __init__(self, h, st, fn):
        self.h, self.st, self.fn = h, st, fn

    def write(self, data):
        self.st._event(f'write({self.fn})')
        return self.h.write(data)

    def __enter__(self):
        return self

    def __exit__(self, *a):
        try:
            self.st._event(f'close({self.fn})')
        finally:
            self.h.close()
        return False

    def __getattr__(self, n):
        return getattr(self.h, n)


CURRENT = None     # the armed EventStorage of the save under test (so that non-storage steps of the save are events too)


def _cache():
    from labtech.cache import PickleCache
    from labtech.serialization import Serializer

    class _S(Serializer):
        def serialize_task(self, task):
            if CURRENT is not None:
                CURRENT._event('serialize_task')
            return super().serialize_task(task)
    return PickleCache(serializer=_S())


@labtech.task(cache=_cache())
class Saved:
    n: int
    kind: str = 'small'

    def run(self):
        if self.kind == 'small':
            return {'n': self.n}
        if self.kind == 'multi':
            return [bytes([i % 251]) * 70000 for i in range(4)]      # several pickle frames / write calls
        if self.kind == 'unpicklable':
            return {'ok': 1, 'deep': [1, 2, {'f': (lambda: 0)}]}
        raise AssertionError


def expected(t):
    return Saved(t.n, t.kind).run()


def verdict(d, task, had_old):
    """-> None if consistent, else a description."""
    logging.getLogger('labtech').setLevel(logging.CRITICAL)
    lab = labtech.Lab(storage=d, runner_backend='serial', continue_on_failure=True)
    cached = lab.is_cached(task)
    try:
        listed = task in lab.cached_tasks([Saved])
    except BaseException as ex:   # noqa
        return f'is_cached={cached} and cached_tasks() raised {type(ex).__name__} on the entry left behind'
    if not cached and not listed:
        return None
    try:
        res = lab.run_tasks([task], disable_progress=True, disable_top=True)
    except BaseException as ex:   # noqa
        return f'reported as cached (is_cached={cached}, cached_tasks={listed}) but run_tasks raised {type(ex).__name__}'
    if task not in res:
        return f'reported as cached (is_cached={cached}, cached_tasks={listed}) but the stored entry cannot be loaded'
    if res[task] != expected(task):
        return f'reported as cached but loads a wrong value'
    return None


def do_save(d, task, at, crash, st=None):
    st = st or EventStorage(d, at=at, crash=crash)
    lab = labtech.Lab(storage=st, runner_backend='serial', continue_on_failure=True)
    global CURRENT
    st.armed = True
    CURRENT = st
    # operating-system calls that remove or rename files are events of the save as well (the reference save makes none)
    patched = {}

    def wrap(name):
        orig = getattr(os, name)
        patched[name] = orig

        def f(path, *a, **k):
            if st.armed and str(path).startswith(str(d)):
                st._event(f'os.{name}({os.path.basename(str(path))})')
            return orig(path, *a, **k)
        setattr(os, name, f)
    for nm in ('unlink', 'remove', 'rename', 'replace', 'rmdir'):
        wrap(nm)
    st.reported = None
    try:
        res = lab.run_tasks([task], bust_cache=True, disable_progress=True, disable_top=True)
        st.reported = 'result' if task in res else 'failed'
    finally:
        for nm, orig in patched.items():
            setattr(os, nm, orig)
        st.armed = False
        CURRENT = None
    return st.events


def site_id(mode, kind, overwrite, events, at):
    """Stable name of an injection point: the event and its occurrence number among equal events of this save."""
    if at is None:
        return f'{mode}/{"overwrite" if overwrite else "first"}/{kind}/pickling-error'
    ev = events[at - 1] if at <= len(events) else f'event{at}'
    if ev.startswith('write('):
        return f'{mode}/{"overwrite" if overwrite else "first"}/{kind}/{ev}'       # any of the write calls of that file
    occ = sum(1 for e in events[:at] if e == ev)
    return f'{mode}/{"overwrite" if overwrite else "first"}/{kind}/{ev}#{occ}'


def explore(mode, limit=None, collect=False):
    """collect=False: stop at the first failing site (replay).  collect=True: every failing site with its id (stand-in)."""
    logging.getLogger('labtech').setLevel(logging.CRITICAL)
    tried = 0
    failing = []
    for kind in ('small', 'multi', 'unpicklable'):
        for overwrite in (False, True):
            task = Saved(1, kind)
            with tempfile.TemporaryDirectory() as d0:
                try:
                    ref_events = list(do_save(d0, task, None, False))
                except BaseException:
                    ref_events = []
            sites = list(range(1, len(ref_events) + 1)) if kind != 'unpicklable' else [None]
            for at in sites:
                with tempfile.TemporaryDirectory() as d:
                    if overwrite:
                        if kind == 'unpicklable':
                            continue
                        do_save(d, task, None, False)
                    tried += 1
                    not_reported = False
                    if mode == 'fault':
                        try:
                            st_f = EventStorage(d, at=at, crash=False)
                            do_save(d, task, at, False, st=st_f)
                            fired = (at is None) or (len(st_f.events) >= at)
                            not_reported = fired and st_f.reported == 'result'
                        except BaseException:   # noqa
                            pass
                    else:
                        if at is None:
                            continue
                        pid = os.fork()
                        if pid == 0:
                            try:
                                do_save(d, task, at, True)
                            finally:
                                os._exit(0)
                        os.waitpid(pid, 0)
                    why = verdict(d, task, overwrite)
                    if not why and not_reported:
                        why = 'the save failed part-way but run_tasks returned a result for the task: the failure was not reported (the task must be reported as failed)'
                        sid0 = site_id(mode, kind, overwrite, ref_events, at) + '/not-reported-as-failed'
                        item = dict(reproduced=True, level='api', mode=mode, result_shape=kind, overwrite=overwrite, site=sid0, summary=f'{mode} at [{sid0}]: {why}')
                        if not collect:
                            return item, tried
                        failing.append(item)
                        continue
                    if why and not_reported:
                        why += '; moreover run_tasks returned a result for the task instead of reporting the failure'
                    if why:
                        sid = site_id(mode, kind, overwrite, ref_events, at) + ('/not-reported-as-failed' if not_reported else '')
                        item = dict(reproduced=True, level='api', mode=mode, result_shape=kind, overwrite=overwrite, site=sid,
                                    summary=f'{mode} at [{sid}]: {why}')
                        if not collect:
                            return item, tried
                        failing.append(item)
    if collect:
        return failing, tried
    return dict(reproduced=False, level='api', mode=mode, tried=tried), tried


def main():
    ap = argparse.ArgumentParser()
    ap.add_argument('--obligation', default='')
    ap.add_argument('--repo', default='/repo')
    ap.add_argument('--prop', default='')
    ap.add_argument('--tier', default='quick')
    a = ap.parse_args()
    if a.obligation or not a.prop:
        try:
            mode = 'crash' if '/crash[' in a.obligation else 'fault'
            res, n = explore(mode)
        except Exception:
            res = dict(reproduced=False, error=traceback.format_exc()[-1500:])
        print(json.dumps(res, default=str))
        return 1 if res.get('reproduced') else 0
    # stand-in: every injection point; each failing one is a finding identified by its site id
    mode = 'crash' if a.prop == 'C13' else 'fault'
    try:
        failing, n = explore(mode, collect=True)
        err = None
    except Exception:
        failing, n, err = [], 0, traceback.format_exc()[-1500:]
    findings, seen = [], set()
    for f in failing:
        if f['site'] not in seen:
            seen.add(f['site'])
            findings.append(dict(id=f'c12:{f["site"]}', summary=f['summary']))
    print(json.dumps([dict(name=f'c12:{mode}-injection-at-every-storage-event', bounded=True,
                           bound=f'{n} injected saves: every storage event (file_handle, OS open, each write call, close) of the save x result shapes (small, multi-frame, unpicklable) x first save / overwrite',
                           violation=False, witness=[], findings=findings, error=err)], default=str))
    return 0


if __name__ == '__main__':
    sys.exit(main())
