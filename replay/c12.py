"""Native replay for C12 (failed save) and C13 (killed mid-save): fault / crash injection through the public
`storage=` extension point.

A `LocalStorage` subclass counts the storage events of one save (file_handle calls, write calls, close calls).
Fault mode (C12): run the save once per event index with an OSError raised at that event; also an unpicklable
result nested at depth.  Crash mode (C13): the save runs in a forked child that calls os._exit at the event
(buffered data lost) or right after it.  Oracle, in a fresh Lab over the same directory: if is_cached(task) (or
cached_tasks lists it) then run_tasks must LOAD a complete correct value (the new one; after an overwrite the old or
the new one).
"""
from __future__ import annotations

import argparse
import json
import logging
import os
import sys
import tempfile
import traceback

import labtech
from labtech.storage import LocalStorage


class Boom(OSError):
    pass


class EventStorage(LocalStorage):
    """Counts events; at event number `at` either raises (fault) or exits the process (crash)."""

    def __init__(self, d, at=None, crash=False):
        super().__init__(d)
        self.events = []
        self.at, self.crash = at, crash
        self.armed = False

    def _event(self, name):
        if not self.armed:
            return
        self.events.append(name)
        if self.at is not None and len(self.events) == self.at:
            if self.crash:
                os._exit(17)
            raise Boom(f'injected at event {self.at}: {name}')

    def file_handle(self, key, filename, *, mode='r'):
        self._event(f'file_handle({filename},{mode})')
        h = super().file_handle(key, filename, mode=mode)
        return HandleProxy(h, self, filename) if ('w' in mode and self.armed) else h


class HandleProxy:
    def __init__(self, h, st, fn):
        self.h, self.st, self.fn = h, st, fn

    def write(self, data):
        self.st._event(f'write({self.fn})')
        return self.h.write(data)

    def __enter__(self):
        return self

    def __exit__(self, *a):
        try:
            self.st._event(f'close({self.fn})')
        finally:
            self.h.close()
        return False

    def __getattr__(self, n):
        return getattr(self.h, n)


@labtech.task
class Saved:
    n: int
    kind: str = 'small'

    def run(self):
        if self.kind == 'small':
            return {'n': self.n}
        if self.kind == 'multi':
            return [bytes([i % 251]) * 70000 for i in range(4)]      # several pickle frames / write calls
        if self.kind == 'unpicklable':
            return {'ok': 1, 'deep': [1, 2, {'f': (lambda: 0)}]}
        raise AssertionError


def expected(t):
    return Saved(t.n, t.kind).run()


def verdict(d, task, had_old):
    """-> None if consistent, else a description."""
    logging.getLogger('labtech').setLevel(logging.CRITICAL)
    lab = labtech.Lab(storage=d, runner_backend='serial', continue_on_failure=True)
    cached = lab.is_cached(task)
    try:
        listed = task in lab.cached_tasks([Saved])
    except BaseException as ex:   # noqa
        return f'is_cached={cached} and cached_tasks() raised {type(ex).__name__} on the entry left behind'
    if not cached and not listed:
        return None
    try:
        res = lab.run_tasks([task], disable_progress=True, disable_top=True)
    except BaseException as ex:   # noqa
        return f'reported as cached (is_cached={cached}, cached_tasks={listed}) but run_tasks raised {type(ex).__name__}'
    if task not in res:
        return f'reported as cached (is_cached={cached}, cached_tasks={listed}) but the stored entry cannot be loaded'
    if res[task] != expected(task):
        return f'reported as cached but loads a wrong value'
    return None


def do_save(d, task, at, crash):
    st = EventStorage(d, at=at, crash=crash)
    lab = labtech.Lab(storage=st, runner_backend='serial', continue_on_failure=True)
    st.armed = True
    try:
        lab.run_tasks([task], bust_cache=True, disable_progress=True, disable_top=True)
    finally:
        st.armed = False
    return st.events


def explore(mode, limit=None):
    logging.getLogger('labtech').setLevel(logging.CRITICAL)
    tried = 0
    for kind in ('small', 'multi', 'unpicklable'):
        for overwrite in (False, True):
            task = Saved(1, kind)
            with tempfile.TemporaryDirectory() as d0:
                try:
                    n_events = len(do_save(d0, task, None, False))
                except BaseException:
                    n_events = 8
            sites = list(range(1, n_events + 1)) if kind != 'unpicklable' else [None]
            for at in sites:
                with tempfile.TemporaryDirectory() as d:
                    if overwrite:
                        if kind == 'unpicklable':
                            continue
                        do_save(d, task, None, False)
                    tried += 1
                    ev_name = ''
                    if mode == 'fault':
                        try:
                            evs = do_save(d, task, at, False)
                            ev_name = evs[at - 1] if at and len(evs) >= at else 'pickling error'
                        except BaseException as ex:   # noqa
                            ev_name = str(ex)
                    else:
                        if at is None:
                            continue
                        pid = os.fork()
                        if pid == 0:
                            try:
                                do_save(d, task, at, True)
                            finally:
                                os._exit(0)
                        os.waitpid(pid, 0)
                        ev_name = f'kill at storage event {at}'
                    why = verdict(d, task, overwrite)
                    if why:
                        return dict(reproduced=True, level='api', mode=mode, result_shape=kind, overwrite=overwrite, site=ev_name,
                                    summary=f'{mode} at [{ev_name}] ({kind} result, {"overwrite" if overwrite else "first save"}): {why}'), tried
    return dict(reproduced=False, level='api', mode=mode, tried=tried), tried


def main():
    ap = argparse.ArgumentParser()
    ap.add_argument('--obligation', default='')
    ap.add_argument('--repo', default='/repo')
    a = ap.parse_args()
    try:
        mode = 'crash' if '/crash[' in a.obligation else 'fault'
        res, n = explore(mode)
    except Exception:
        res = dict(reproduced=False, error=traceback.format_exc()[-1500:])
    print(json.dumps(res, default=str))
    return 1 if res.get('reproduced') else 0


if __name__ == '__main__':
    sys.exit(main())
