# TaskState (labtech/lab.py) -- DESIGN 6.B
TS = 'labtech.lab:TaskState'

R.macro('P', ['s'], 's.pending_tasks')
R.macro('DD', ['s'], 's.task_to_direct_dependencies')
R.macro('PD', ['s'], 's.task_to_pending_dependencies')
R.macro('PT', ['s'], 's.task_to_pending_dependents')
R.macro('ACT', ['s'], 's.type_to_active_tasks')
R.macro('INSTS', ['s'], 's.task_to_instances')
R.macro('ty', ['t'], 'type_of_Task(t)')

R.cls(TS,
    fields={
        'pending_tasks': 'Set[Task]',
        'processed_task_ids': 'Set[Inst]',
        'task_to_direct_dependencies': 'DSet[Task,Task]',
        'task_to_pending_dependencies': 'DSet[Task,Task]',
        'task_to_pending_dependents': 'DSet[Task,Task]',
        'type_to_active_tasks': 'DSet[Type,Task]',
        'task_to_instances': 'DSet[Task,Inst]',
    },
    ghost={'ALL': 'Set[Task]', 'STARTED': 'Set[Task]', 'FIN': 'Set[Task]', 'SUCC': 'Set[Task]'},
    invariant=[
        C("forall('Task','Task', lambda t, d: (d in PD(self)[t]) == ((d in DD(self)[t]) and (d not in self.FIN)))", 'I1'),
        C("forall('Task','Task', lambda t, d: (t in PT(self)[d]) == ((d in DD(self)[t]) and (t not in self.FIN)))", 'I2'),
        C("forall('Task', lambda t: (t in ACT(self)[ty(t)]) == ((t in self.STARTED) and (t not in self.FIN)))", 'I3a'),
        C("forall('Type','Task', lambda y, t: implies(t in ACT(self)[y], ty(t) == y))", 'I3b'),
        C("forall('Task', lambda t: (t in P(self)) == ((t in self.ALL) and (t not in self.STARTED)))", 'I4a'),
        C("subset(self.FIN, self.STARTED) and subset(self.STARTED, self.ALL) and subset(self.SUCC, self.FIN)", 'I4b'),
        C("forall('Task','Task', lambda t, d: implies(d in DD(self)[t], (d in deps(t)) and (d in self.ALL) and (t in self.ALL)))", 'I5-I10'),
        C("forall('Task','Task', lambda t, d: implies((t in self.STARTED) and (d in DD(self)[t]), d in self.FIN))", 'I6', serves=('C02', 'C01', 'C17', 'C03', 'C10', 'C11', 'C04', 'C05', 'C14')),
        C("forall('Type', lambda y: implies(not isnone(maxpar(y)), card(ACT(self)[y]) <= unopt(maxpar(y))))", 'I7', serves=('C04',)),
    ])

R.alias('Inst', '_set_result_meta', 'labtech.tasks:_task_set_result_meta')
R.contract('labtech.tasks:_task_set_result_meta',
    self_type='Inst', params={'result_meta': 'Opt[Meta]'},
    ensures=["forall('Inst', lambda i: i.result_meta == (result_meta if i == self else old(i.result_meta)))"],
    frame=['Inst.result_meta'])

R.contract(f'{TS}.start_task',
    self_type='Obj[TaskState]', params={'task': 'Task'},
    requires=['INV(self)', 'task in P(self)',
              C("implies(not isnone(maxpar(ty(task))), card(ACT(self)[ty(task)]) < unopt(maxpar(ty(task))))", 'below-limit', serves=('C04',)),
              C("subset(DD(self)[task], self.FIN)", 'deps-finished')],
    ensures=['INV(self)'],
    ghost_exit={'self.STARTED': 'self.STARTED | {task}'},
    frame=['self.pending_tasks', 'self.type_to_active_tasks'])

R.contract(f'{TS}.complete_task',
    self_type='Obj[TaskState]', params={'task': 'Task', 'result_meta': 'Opt[Meta]'}, returns='Set[Task]',
    requires=['INV(self)', 'task in self.STARTED', 'task not in self.FIN'],
    ensures=['INV(self)',
             C("result == ({d for d in DD(self)[task] if empty(PT(self)[d])} | ({task} if empty(PT(self)[task]) else typed_empty('Set[Task]')))",
               'released-exactly', serves=('C17', 'C01', 'C02')),
             C("forall('Inst', lambda i: implies((i in INSTS(self)[task]) and (result_meta is not None), i.result_meta == result_meta))",
               'meta-on-every-instance', serves=('C03', 'C06')),
             C("forall('Inst', lambda i: implies(not ((i in INSTS(self)[task]) and (result_meta is not None)), i.result_meta == old(i.result_meta)))",
               'meta-frame', serves=('C03',)),
             ],
    ghost_exit={'self.FIN': 'self.FIN | {task}',
                'self.SUCC': "(self.SUCC | {task}) if result_meta is not None else self.SUCC"},
    frame=['self.type_to_active_tasks', 'self.task_to_pending_dependencies', 'self.task_to_pending_dependents',
           'Inst.result_meta'],
    candidates=[
        "forall('Inst', lambda i: i.result_meta == (result_meta if i in __done__ else old(i.result_meta)))",
        "forall('Task','Task', lambda k, j: (j in PD(self)[k]) == ((j in old(PD(self))[k]) and not ((k in __done__) and (j == task))))",
        "forall('Task','Task', lambda k, j: (j in PT(self)[k]) == ((j in old(PT(self))[k]) and not ((k in __done__) and (j == task))))",
        "forall('Task', lambda k: (k in __ret__) == ((k in __done__) and empty(PT(self)[k])))",
        # decoys / alternatives that Houdini is expected to drop where they do not hold
        "forall('Task', lambda k: (k in __ret__) == (k in __done__))",
        "empty(__ret__)",
    ])
