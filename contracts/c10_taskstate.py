# TaskState (labtech/lab.py) -- DESIGN 6.B
TS = 'labtech.lab:TaskState'

R.macro('P', ['s'], 's.pending_tasks')
R.macro('DD', ['s'], 's.task_to_direct_dependencies')
R.macro('PD', ['s'], 's.task_to_pending_dependencies')
R.macro('PT', ['s'], 's.task_to_pending_dependents')
R.macro('ACT', ['s'], 's.type_to_active_tasks')
R.macro('INSTS', ['s'], 's.task_to_instances')
R.macro('ty', ['t'], 'type_of_Task(t)')

R.cls(TS,
    fields={
        'pending_tasks': 'Set[Task]',
        'processed_task_ids': 'Set[Inst]',
        'task_to_direct_dependencies': 'DSet[Task,Task]',
        'task_to_pending_dependencies': 'DSet[Task,Task]',
        'task_to_pending_dependents': 'DSet[Task,Task]',
        'type_to_active_tasks': 'DSet[Type,Task]',
        'task_to_instances': 'DSet[Task,Inst]',
    },
    ghost={'ALL': 'Set[Task]', 'STARTED': 'Set[Task]', 'FIN': 'Set[Task]', 'SUCC': 'Set[Task]'},
    invariant=[
        C("forall('Task','Task', lambda t, d: (d in PD(self)[t]) == ((d in DD(self)[t]) and (d not in self.FIN)))", 'I1'),
        C("forall('Task','Task', lambda t, d: (t in PT(self)[d]) == ((d in DD(self)[t]) and (t not in self.FIN)))", 'I2'),
        C("forall('Task', lambda t: (t in ACT(self)[ty(t)]) == ((t in self.STARTED) and (t not in self.FIN)))", 'I3a'),
        C("forall('Type','Task', lambda y, t: implies(t in ACT(self)[y], ty(t) == y))", 'I3b'),
        C("forall('Task', lambda t: (t in P(self)) == ((t in self.ALL) and (t not in self.STARTED)))", 'I4a'),
        C("subset(self.FIN, self.STARTED) and subset(self.STARTED, self.ALL) and subset(self.SUCC, self.FIN)", 'I4b'),
        C("forall('Task','Task', lambda t, d: implies(d in DD(self)[t], (d in deps(t)) and (d in self.ALL) and (t in self.ALL)))", 'I5-I10'),
        C("forall('Task','Task', lambda t, d: implies((t in self.STARTED) and (d in DD(self)[t]), d in self.FIN))", 'I6', serves=('C02', 'C01', 'C17', 'C03', 'C10', 'C11', 'C04', 'C05', 'C14')),
        C("forall('Type', lambda y: implies(not isnone(maxpar(y)), card(ACT(self)[y]) <= unopt(maxpar(y))))", 'I7', serves=('C04',)),
    ])

R.alias('Inst', '_set_result_meta', 'labtech.tasks:_task_set_result_meta')
R.contract('labtech.tasks:_task_set_result_meta',
    self_type='Inst', params={'result_meta': 'Opt[Meta]'},
    ensures=["forall('Inst', lambda i: i.result_meta == (result_meta if i == self else old(i.result_meta)))"],
    frame=['Inst.result_meta'])

R.contract(f'{TS}.start_task',
    self_type='Obj[TaskState]', params={'task': 'Task'},
    requires=['INV(self)', 'task in P(self)',
              C("implies(not isnone(maxpar(ty(task))), card(ACT(self)[ty(task)]) < unopt(maxpar(ty(task))))", 'below-limit', serves=('C04',)),
              C("subset(DD(self)[task], self.FIN)", 'deps-finished')],
    ensures=['INV(self)',
             C("P(self) == sdel(old(P(self)), task)", 'pending -= task'),
             C("forall('Type', lambda y: ACT(self)[y] == ite(y == ty(task), sadd(old(ACT(self))[y], task), old(ACT(self))[y]))", 'active[type] += task, other types untouched'),
             C("task not in old(ACT(self))[ty(task)]", 'the task was not active before')],
    ghost_exit={'self.STARTED': 'self.STARTED | {task}'},
    frame=['self.pending_tasks', 'self.type_to_active_tasks'])

R.contract(f'{TS}.complete_task',
    self_type='Obj[TaskState]', params={'task': 'Task', 'result_meta': 'Opt[Meta]'}, returns='Set[Task]',
    requires=['INV(self)', 'task in self.STARTED', 'task not in self.FIN'],
    ensures=['INV(self)',
             C("result == ({d for d in DD(self)[task] if empty(PT(self)[d])} | ({task} if empty(PT(self)[task]) else typed_empty('Set[Task]')))",
               'released-exactly', serves=('C17', 'C01', 'C02')),
             C("forall('Inst', lambda i: implies((i in INSTS(self)[task]) and (result_meta is not None), i.result_meta == result_meta))",
               'meta-on-every-instance', serves=('C03', 'C06')),
             C("forall('Inst', lambda i: implies(not ((i in INSTS(self)[task]) and (result_meta is not None)), i.result_meta == old(i.result_meta)))",
               'meta-frame', serves=('C03',)),
             ],
    ghost_exit={'self.FIN': 'self.FIN | {task}',
                'self.SUCC': "(self.SUCC | {task}) if result_meta is not None else self.SUCC"},
    frame=['self.type_to_active_tasks', 'self.task_to_pending_dependencies', 'self.task_to_pending_dependents',
           'Inst.result_meta'],
    candidates=[
        "forall('Inst', lambda i: i.result_meta == (result_meta if i in __done__ else old(i.result_meta)))",
        "forall('Task','Task', lambda k, j: (j in PD(self)[k]) == ((j in old(PD(self))[k]) and not ((k in __done__) and (j == task))))",
        "forall('Task','Task', lambda k, j: (j in PT(self)[k]) == ((j in old(PT(self))[k]) and not ((k in __done__) and (j == task))))",
        "forall('Task', lambda k: (k in __ret__) == ((k in __done__) and empty(PT(self)[k])))",
        # decoys / alternatives that Houdini is expected to drop where they do not hold
        "forall('Task', lambda k: (k in __ret__) == (k in __done__))",
        "empty(__ret__)",
    ])

# ------------------------------------------------------------------ plan phase
R.func('ucache', ['Task'], 'Bool')     # GHOST: would this task be served from the cache (decided by TaskCoordinator.use_cache)

# PLANINV: the representation invariant while the DAG is being built (nothing started yet).
R.macro('PLANINV', ['s'], """(
    empty(s.STARTED) and empty(s.FIN) and empty(s.SUCC)
    and forall('Type', lambda y: empty(ACT(s)[y]))
    and forall('Task', lambda t: (t in P(s)) == (t in s.ALL))
    and forall('Task','Task', lambda t, d: (d in PD(s)[t]) == (d in DD(s)[t]))
    and forall('Task','Task', lambda t, d: (t in PT(s)[d]) == (d in DD(s)[t]))
    and forall('Task','Task', lambda t, d: implies(d in DD(s)[t], (d in deps(t)) and (t in s.ALL) and (not ucache(t))))
    and forall('Task','Task', lambda t, d: implies((t in s.ALL) and (not ucache(t)) and (d in deps(t)), d in DD(s)[t]))
    and forall('Inst', lambda i: implies(i in s.processed_task_ids, (Inst_to_Task(i) in s.ALL) and (i in INSTS(s)[Inst_to_Task(i)])))
    and forall('Task','Inst', lambda t, i: implies(i in INSTS(s)[t], (Inst_to_Task(i) == t) and (i in s.processed_task_ids)))
)""")
# every dependency edge leads to an inserted task, except towards values that still have an instance in `front`
R.macro('CLOSED_EXCEPT', ['s', 'front'], """forall('Task','Task', lambda t, d: implies(d in DD(s)[t],
    (d in s.ALL) or exists('Inst', lambda i: (i in front) and (Inst_to_Task(i) == d))))""")

# (the contract of labtech.tasks:get_direct_dependencies lives in c60_values.py, where its body is verified)

# instance-level closure (C03): every task OBJECT found in the parameters of a processed, non-cached task object is itself
# processed (hence tracked in task_to_instances and marked with result_meta on completion), except those still in `front`
R.macro('CLOSED_I', ['s', 'front'], """forall('Inst','Inst', lambda j, i: implies((j in s.processed_task_ids) and (not ucache(Inst_to_Task(j))) and (i in depinsts(j)),
    (i in s.processed_task_ids) or (i in front)))""")

R.contract('labtech.lab:TaskCoordinator.use_cache',
    self_type='Obj[TaskCoordinator]', params={'task': 'Task'}, returns='Bool', pure=True,
    defn='ucache(task)',
    note='GHOST definition of ucache: the value this call returns; its stability between plan time and submit time is an obligation of the coordinator (C03)')

R.cls('labtech.lab:TaskCoordinator', fields={'bust_cache': 'Bool'})
R.classes[TS].fields['coordinator'] = 'Obj[TaskCoordinator]'

R.contract(f'{TS}.insert_task',
    self_type='Obj[TaskState]', params={'task': 'Inst', 'dependencies': 'List[Inst]'},
    requires=[],
    ensures=[
        C("forall('Task', lambda t: (t in P(self)) == ((t in old(P(self))) or (t == Inst_to_Task(task))))", 'pending+=task'),
        C("forall('Task','Inst', lambda t, i: (i in INSTS(self)[t]) == ((i in old(INSTS(self))[t]) or ((t == Inst_to_Task(task)) and (i == task))))", 'instances+=task'),
        C("forall('Task','Task', lambda t, d: (d in DD(self)[t]) == ((d in old(DD(self))[t]) or ((t == Inst_to_Task(task)) and exists('Inst', lambda i: (i in dependencies) and (Inst_to_Task(i) == d)))))", 'DD+=deps'),
        C("forall('Task','Task', lambda t, d: (d in PD(self)[t]) == ((d in old(PD(self))[t]) or ((t == Inst_to_Task(task)) and exists('Inst', lambda i: (i in dependencies) and (Inst_to_Task(i) == d)))))", 'PD+=deps'),
        C("forall('Task','Task', lambda d, t: (t in PT(self)[d]) == ((t in old(PT(self))[d]) or ((t == Inst_to_Task(task)) and exists('Inst', lambda i: (i in dependencies) and (Inst_to_Task(i) == d)))))", 'PT+=task'),
    ],
    ghost_exit={'self.ALL': 'self.ALL | {Inst_to_Task(task)}'},
    frame=['self.pending_tasks', 'self.task_to_instances', 'self.task_to_direct_dependencies',
           'self.task_to_pending_dependencies', 'self.task_to_pending_dependents'],
    candidates=[
        "forall('Task','Task', lambda t, d: (d in DD(self)[t]) == ((d in old(DD(self))[t]) or ((t == Inst_to_Task(task)) and exists('Inst', lambda i: (i in __done__) and (Inst_to_Task(i) == d)))))",
        "forall('Task','Task', lambda t, d: (d in PD(self)[t]) == ((d in old(PD(self))[t]) or ((t == Inst_to_Task(task)) and exists('Inst', lambda i: (i in __done__) and (Inst_to_Task(i) == d)))))",
        "forall('Task','Task', lambda d, t: (t in PT(self)[d]) == ((t in old(PT(self))[d]) or ((t == Inst_to_Task(task)) and exists('Inst', lambda i: (i in __done__) and (Inst_to_Task(i) == d)))))",
    ])

R.contract(f'{TS}.process_tasks',
    self_type='Obj[TaskState]', params={'tasks': 'List[Inst]'},
    requires=['PLANINV(self)', 'CLOSED_EXCEPT(self, tasks)', C('CLOSED_I(self, tasks)', 'instances closed except the given ones', serves=('C03',))],
    ensures=['PLANINV(self)',
             C("CLOSED_I(self, typed_empty('List[Inst]'))", 'every task object inside the parameters of a planned, non-cached task object is tracked', serves=('C03',)),
             C("forall('Task','Task', lambda t, d: implies(d in DD(self)[t], d in self.ALL))", 'closed'),
             C("forall('Inst', lambda i: implies(i in tasks, i in self.processed_task_ids))", 'every given instance processed', serves=('C03',)),
             C("subset(old(self.ALL), self.ALL) and subset(old(self.processed_task_ids), self.processed_task_ids)", 'monotone'),
             ],
    frame=['self.pending_tasks', 'self.processed_task_ids', 'self.task_to_instances', 'self.task_to_direct_dependencies',
           'self.task_to_pending_dependencies', 'self.task_to_pending_dependents', 'self.ALL'],
    locals={'all_dependencies': 'List[Inst]', 'dependency_tasks': 'List[Inst]'},
    cand_locals=('all_dependencies',),
    candidates=[
        'PLANINV(self)',
        "forall('Task','Task', lambda t, d: implies(d in DD(self)[t], (d in self.ALL) or exists('Inst', lambda i: ((i in tasks) or (i in all_dependencies)) and (Inst_to_Task(i) == d))))",
        "forall('Inst', lambda i: implies(i in __done__, i in self.processed_task_ids))",
        "subset(old(self.ALL), self.ALL) and subset(old(self.processed_task_ids), self.processed_task_ids)",
        C("forall('Inst','Inst', lambda j, i: implies((j in self.processed_task_ids) and (not ucache(Inst_to_Task(j))) and (i in depinsts(j)), (i in self.processed_task_ids) or (i in tasks) or (i in all_dependencies)))", 'CLOSED_I over both frontiers', serves=('C03',)),
    ])

# ------------------------------------------------------------------ scheduling decision
R.deffunc('OFTYPE', {'S': 'Set[Task]', 'y': 'Type'}, 'Set[Task]', '{t for t in S if ty(t) == y}',
    lemmas=[C("forall('Set[Task]','Type','Task', lambda S, y, x: OFTYPE(sadd(S, x), y) == ite(ty(x) == y, sadd(OFTYPE(S, y), x), OFTYPE(S, y)), pat=lambda S, y, x: OFTYPE(sadd(S, x), y))", 'OFTYPE-add'),
            C("forall('Set[Task]','Type','Task', lambda S, y, x: (x in OFTYPE(S, y)) == ((x in S) and (ty(x) == y)), pat=lambda S, y, x: x in OFTYPE(S, y))", 'OFTYPE-mem'),
            C("forall('Type', lambda y: OFTYPE(typed_empty('Set[Task]'), y) == typed_empty('Set[Task]'))", 'OFTYPE-empty'),
            C("forall('Set[Task]','Set[Task]','Type','Task', lambda S, D, y, x: OFTYPE(S - sadd(D, x), y) == ite(ty(x) == y, sdel(OFTYPE(S - D, y), x), OFTYPE(S - D, y)), pat=lambda S, D, y, x: OFTYPE(S - sadd(D, x), y))", 'OFTYPE-diff-add'),
            C("forall('Set[Task]','Type', lambda S, y: OFTYPE(S - S, y) == typed_empty('Set[Task]'), pat=lambda S, y: OFTYPE(S - S, y))", 'OFTYPE-diff-self')])
R.contract(f'{TS}.get_ready_tasks',
    self_type='Obj[TaskState]', params={}, returns='UList[Task]',
    requires=['INV(self)'],
    ensures=[
        C("forall('Task', lambda t: implies(t in result, (t in P(self)) and empty(PD(self)[t])))", 'ready => pending and unblocked', serves=('C02', 'C01', 'C03', 'C10', 'C14')),
        C("forall('Type', lambda y: implies(not isnone(maxpar(y)), card(ACT(self)[y]) + card(OFTYPE(result, y)) <= unopt(maxpar(y))))",
          'within per-type limit', serves=('C04',)),
        C("forall('Task', lambda t: implies((t in P(self)) and empty(PD(self)[t]) and (t not in result), (not isnone(maxpar(ty(t)))) and (card(ACT(self)[ty(t)]) + card(OFTYPE(result, ty(t))) >= unopt(maxpar(ty(t))))))",
          'maximal: skipped only at the limit', serves=('C05', 'C11')),
    ],
    frame=[],
    locals={'ready_tasks': 'UList[Task]'},
    cand_locals=('task_type_counts',),
    candidates=[
        "forall('Type', lambda y: task_type_counts[y] == card(ACT(self)[y]) + card(OFTYPE(__ret__, y)))",
        "forall('Type', lambda y: implies(not isnone(maxpar(y)), task_type_counts[y] <= unopt(maxpar(y))))",
        "forall('Task', lambda t: implies(t in __ret__, (t in __done__) and (t in P(self)) and empty(PD(self)[t])))",
        "forall('Task', lambda t: implies((t in __done__) and empty(PD(self)[t]) and (t not in __ret__), (not isnone(maxpar(ty(t)))) and (task_type_counts[ty(t)] >= unopt(maxpar(ty(t))))))",
    ])
