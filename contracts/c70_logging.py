# C19: messages emitted by a task reach the caller's log exactly once -- three sequential contracts (DESIGN 7/C19)
UT = 'labtech.utils'
LFP = f'{UT}:LoggerFileProxy'
PRK = 'labtech.runners.process:ProcessRunner'
RN = 'labtech.types:Runner'

# ---- (a) the stdout/stderr proxy: every non-blank write is handed to the logger exactly once
#   WEv : one write() occurrence (the same text written twice is two events)
R.func('blank', ['WEv'], 'Bool')                     # whitespace_only_re.fullmatch(buf)
R.cls(LFP, fields={'logger_func': 'LogFn', 'prefix': 'Str', 'bufs': 'UList[WEv]'},
      ghost={'EMITTED': 'Set[WEv]', 'TWICE': 'Bool'},
      pure={'whitespace_only_re': 'THE_WS_RE()'},
      invariant=[C("disjoint(self.bufs, self.EMITTED)", 'X1: what is still buffered has not been emitted yet', serves=('C19',)),
                 C("not self.TWICE", 'X2: nothing has been emitted twice', serves=('C19',))])
R.func('THE_WS_RE', [], 'Regex')
R.contract('trusted:Regex.fullmatch', trusted=True, self_type='Regex', params={'s': 'WEv'}, returns='Bool', pure=True, defn='blank(s)')
R.alias('Regex', 'fullmatch', 'trusted:Regex.fullmatch')
R.contract('trusted:LogFn.__call__', trusted=True, self_type='LogFn', params={'msg': 'Str'}, frame=[],
    note='logger.info / logger.error: hands one record (here: all buffered fragments joined) to the handlers')
R.alias('LogFn', '__call__', 'trusted:LogFn.__call__')
R.contract(f'{LFP}.write', self_type='Obj[LoggerFileProxy]', params={'buf': 'WEv'},
    requires=['INV(self)', C("(buf not in self.bufs) and (buf not in self.EMITTED)", 'A-fresh: every write() call is a new occurrence')],
    ensures=['INV(self)', C("forall('WEv', lambda w: (w in self.bufs) == ((w in old(self.bufs)) or ((w == buf) and (not blank(buf)))))", 'a non-blank fragment is buffered, nothing else changes', serves=('C19',)),
             C("self.EMITTED == old(self.EMITTED)", 'write emits nothing')],
    frame=['self.bufs'])
R.contract(f'{LFP}.flush', self_type='Obj[LoggerFileProxy]', params={},
    requires=['INV(self)'],
    ensures=['INV(self)',
             C("empty(self.bufs)", 'FLUSHED: after flush nothing is left buffered, so a later flush cannot emit it again', serves=('C19',)),
             C("self.EMITTED == (old(self.EMITTED) | old(self.bufs))", 'flush emits exactly what was buffered', serves=('C19',))],
    ghost_exit={'self.EMITTED': 'self.EMITTED | self.bufs', 'self.TWICE': 'self.TWICE or (not disjoint(self.bufs, self.EMITTED))'},
    frame=['self.bufs'])

# ---- (b) child side: everything the task wrote is handed to the queue handler BEFORE the result is put on the result queue
R.classes[LFP].ghost_init = {'EMITTED': "typed_empty('Set[WEv]')", 'TWICE': 'False'}
R.contract(f'{LFP}.__init__', self_type='Obj[LoggerFileProxy]', params={'logger_func': 'LogFn', 'prefix': 'Str'},
    requires=["empty(self.EMITTED) and (not self.TWICE)"],
    ensures=['INV(self)', "empty(self.bufs)", "empty(self.EMITTED)", "self.logger_func == logger_func"], frame=['self.*'])
R.classes['trusted:Logger'].fields = {'handlers': 'List[Handler]', 'info': 'LogFn', 'error': 'LogFn'}
R.classes['trusted:SysModule'].fields = {'stdout': 'Obj[LoggerFileProxy]', 'stderr': 'Obj[LoggerFileProxy]'}
R.contract('trusted:QueueHandler', trusted=True, params={'queue': 'Queue'}, returns='Handler', frame=[])
R.contract('trusted:Logger.addHandler', trusted=True, self_type='Obj[Logger]', params={'h': 'Handler'}, frame=['self.handlers'])
R.func('SIGINT_C', [], 'Sig')
R.func('SIG_IGN_C', [], 'SigHandler')
R.const_exprs.update({'signal.SIGINT': 'SIGINT_C()', 'signal.SIG_IGN': 'SIG_IGN_C()'})
R.contracts['trusted:signal.signal'].ensures = []
R.contracts['trusted:signal.signal'].ghost_exit = {'@SIGINT_IGNORED': 'True'}
R.contracts['trusted:signal.signal'].varargs = False
R.record('CurProc', mutable={'name': 'Str'}, immutable={'pid': 'Int'})
R.func('CurProc.pid', ['CurProc'], 'Int')
R.record('PEvent', cls='labtech.runners.process:ProcessStartEvent', immutable={'task_name': 'Str', 'pid': 'Int', 'use_cache': 'Bool'}, ctor_kwargs=True)
R.record('PEndEvent', cls='labtech.runners.process:ProcessEndEvent', immutable={'task_name': 'Str'}, ctor_kwargs=True)
for _f, _t in (('PEvent.task_name', 'Str'), ('PEvent.pid', 'Int'), ('PEvent.use_cache', 'Bool')):
    R.func(_f, ['PEvent'], _t)
R.func('PEndEvent.task_name', ['PEndEvent'], 'Str')
R.contracts['labtech.runners.base:run_or_load_task'].frame = R.contracts['labtech.runners.base:run_or_load_task'].frame + ['*.bufs']

R.contract(f'{PRK}._subprocess_func',
    params={'task': 'Inst', 'task_name': 'Str', 'use_cache': 'Bool', 'results_map': 'Map[Task,Res]', 'filtered_context': 'Ctx',
            'storage': 'Storage', 'process_event_queue': 'Queue', 'log_queue': 'Queue'},
    returns='Res',
    ensures=[C("empty(sys.stdout.bufs) and empty(sys.stderr.bufs)", 'FLUSH-BEFORE-RESULT: nothing the task printed is still buffered when the result is handed back', serves=('C19',))],
    raises={'BaseException': [C("empty(sys.stdout.bufs) and empty(sys.stderr.bufs)", 'FLUSH-BEFORE-RESULT (failure path)', serves=('C19',))]},
    at_call={'run_or_load_task': [
        C("SIGINT_IGNORED", 'the worker ignores SIGINT before it runs anything of the task', serves=('C14',)),
        C("implies(not use_cache, HANDED(task, results_map))", 'every dependency instance is handed the results map received from the parent before the task runs', serves=('C01', 'C02')),
        C("arg_filtered_context == filtered_context", 'the context computed by the parent/fork wrapper is the one the task runs with', serves=('C16',))]},
    frame=['@SIGINT_IGNORED', '@logger.handlers', '@sys.stdout', '@sys.stderr', 'Queue.puts', 'Inst._results_map', 'Inst.context', '@DIRS', '@FGOOD', '@FBAD',
           '@RUN_CALLS', 'CurProc.name', 'Handle.pending', '*.bufs', '*.EMITTED', '*.TWICE'],
    candidates=["forall('Inst', lambda i: implies(i in __done__, i._results_map == some(results_map)))", "SIGINT_IGNORED"])

# ---- (c) parent side: the log queue is drained after results are collected and before their tasks are yielded
R.classes[PRK].ghost['UNDELIVERED'] = 'Set[Task]'      # GHOST: tasks whose result has been collected since the log queue was last drained
# _consume_log_queue is VERIFIED: it may stop only when the queue has reported Empty.  Ghost `backlog` = records put and not yet
# taken off the log queue; TRUSTED: get_nowait() takes one record off (backlog - 1) or raises Empty, and it raises Empty only when
# nothing put before the call is still queued (causality of Manager().Queue, as for the result queue).
R.records['Queue'].mutable['backlog'] = 'Int'
R.record('LogRecord', immutable={'name': 'Str'})
R.func('LogRecord.name', ['LogRecord'], 'Str')
R.contract('trusted:Queue.get_nowait', trusted=True, self_type='Queue', params={}, returns='LogRecord',
    ensures=["forall('Queue', lambda q: q.backlog == (old(q.backlog) - 1 if q == self else old(q.backlog)))", "old(self.backlog) >= 1"],
    raises={'Empty': ["forall('Queue', lambda q: q.backlog == old(q.backlog))", "self.backlog == 0"]}, frame=['Queue.backlog'],
    note='Manager().Queue.get_nowait')
R.alias('Queue', 'get_nowait', 'trusted:Queue.get_nowait')
R.contract('trusted:logging.getLogger', trusted=True, params={'name': 'Str'}, returns='PyLogger', pure=True, note='logging.getLogger(name)')
R.contract('trusted:PyLogger.handle', trusted=True, self_type='PyLogger', params={'record': 'LogRecord'}, frame=[],
    note='Logger.handle(record): hands the record to the caller\'s handlers (delivery)')
R.alias('PyLogger', 'handle', 'trusted:PyLogger.handle')
_clq = R.contracts[f'{PRK}._consume_log_queue']
_clq.trusted = False
_clq.requires = [C("self.log_queue.backlog >= 0", 'ghost backlog is a count (number of queued records)', serves=('A-ghost',))]
_clq.ensures = [C("self.log_queue.backlog == 0", 'DRAINED: the method returns only after the log queue reported Empty, so every record enqueued so far has been handed to the handlers', serves=('C19',)),
                C("empty(self.UNDELIVERED)", 'hence nothing of an already collected task is undelivered', serves=('C19',))]
_clq.ghost_at_exit = {'self.UNDELIVERED': "typed_empty('Set[Task]') if self.log_queue.backlog == 0 else self.UNDELIVERED"}
_clq.frame = ['self.UNDELIVERED', 'Queue.backlog']
_clq.raises = {}
_clq.candidates = [C("self.log_queue.backlog >= 0")]
_clq.note = 'log forwarding'
w = R.contracts[f'{PRK}.wait']
w.ghost_after = {'wait': {'self.UNDELIVERED': "self.UNDELIVERED | {Inst_to_Task(self.future_to_task[f]) for f in result[0]}"}}
w.yields = w.yields + [C("Inst_to_Task(value[0]) not in self.UNDELIVERED",
                         'DELIVERED-BEFORE-YIELD: the records of a completed task have been handed to the caller\'s handlers before its completion is reported (so nothing is pending when run_tasks returns)', serves=('C19',))]
w.frame = w.frame + ['self.UNDELIVERED']
w.candidates = w.candidates + [C("forall('Fut', lambda f: implies((f in done) and (f in old(self.future_to_task)), Inst_to_Task(old(self.future_to_task)[f]) not in self.UNDELIVERED))", 'records of collected tasks are delivered', serves=('C19',)),
                               C("empty(self.UNDELIVERED)", 'nothing undelivered', serves=('C19',))]

# user code reaches the proxies only through write()/flush(), which preserve their invariant (A-run)
_rolt = R.contracts['labtech.runners.base:run_or_load_task']
_px = C("INV(sys.stdout) and INV(sys.stderr)", 'A-run: whatever the task prints goes through LoggerFileProxy.write/flush, which keep the proxy invariant', serves=('A-run',))
_rolt.ensures = _rolt.ensures + [_px]
_rolt.raises = {k: v + [_px] for k, v in _rolt.raises.items()}
