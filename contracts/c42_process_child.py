# Child-side functions and the spawn/fork submit paths (labtech/runners/process.py) -- DESIGN 6.D
PRK = 'labtech.runners.process:ProcessRunner'
SPK = 'labtech.runners.process:SpawnProcessRunner'
FKK = 'labtech.runners.process:ForkProcessRunner'
PEK = 'labtech.runners.process:ProcessExecutor'

R.annotation_sorts.update({'LabContext': 'Ctx'})
R.global_objects.update({'logger': 'Logger', 'sys': 'SysModule'})
R.cls('trusted:Logger', fields={'handlers': 'HandlerList', 'info': 'LogFn', 'error': 'LogFn'})
R.cls('trusted:SysModule', fields={'stdout': 'Stream', 'stderr': 'Stream'})
R.classes['trusted:Logger'].key = 'trusted:Logger'
R.globals['SIGINT_IGNORED'] = 'Bool'       # GHOST: has this process set SIGINT to SIG_IGN

R.record('Queue', mutable={'puts': 'Int'})
R.contract('trusted:Queue.put', trusted=True, self_type='Queue', params={}, varargs=True,
    ensures=["forall('Queue', lambda q: q.puts == (old(q.puts) + 1 if q == self else old(q.puts)))"], frame=['Queue.puts'],
    note='Manager().Queue.put: the item becomes visible to a later get in another process (causality assumed)')
R.alias('Queue', 'put', 'trusted:Queue.put')
R.contract('trusted:Thunk.__call__', trusted=True, self_type='Thunk', params={}, returns='Res', raises={'BaseException': []}, frame=['Inst.context', 'Inst._results_map'],
    note='functools.partial of the child function: runs it')
R.alias('Thunk', '__call__', 'trusted:Thunk.__call__')
R.func('Res_to_QItem', ['Res'], 'QItem')
R.func('Exc_to_QItem', ['Exc'], 'QItem')

R.contract('labtech.runners.process:_subprocess_target',
    params={'future_id': 'Fid', 'thunk': 'Thunk', 'result_queue': 'Queue'},
    ensures=[C("result_queue.puts == old(result_queue.puts) + 1", 'exactly one item (the result or the exception) is put on the result queue, whatever the thunk does', serves=('C10', 'C11'))],
    raises={}, frame=['Queue.puts', 'Inst.context', 'Inst._results_map'])

R.contract('trusted:signal.signal', trusted=True, params={'sig': 'Sig', 'handler': 'SigHandler'},
    ensures=["@SIGINT_IGNORED"] if False else [], frame=['@SIGINT_IGNORED'], varargs=True)

R.cls(SPK, bases=(PRK,), fields={'context': 'Ctx', 'storage': 'Storage'})
R.cls(FKK, bases=(PRK,), fields={'uuid': 'Uuid'})

R.implements(f'{SPK}._submit_task', f'{PRK}._submit_task', self_type='Obj[SpawnProcessRunner]',
    frame=['executor._pending_future_to_thunk', 'executor._running_id_to_future_and_process', 'Fut._state', 'Fut._ex', 'Fut._result', '@STARTED'],
    cand_locals=('results_map', 'filtered_context'),
    at_call={'submit': [
        C("implies(not use_cache, forall('Task', lambda d: implies((d in deps(Inst_to_Task(task))) and (d in RES(self)), (d in results_map) and (results_map[d] == RES(self)[d]))))",
          'SNAPSHOT: every held result of a dependency is copied into the map sent to the child', serves=('C01', 'C02')),
        C("implies(not use_cache, filtered_context == filter_ctx(Inst_to_Task(task), self.context))",
          'the child is sent the task\'s own filter_context applied to the Lab context', serves=('C16',)),
    ]},
    assume_after={'submit': [C("fut_task(result) == Inst_to_Task(task)", 'GHOST definition: the future created here is the future of this task (the thunk closes over `task`)')]})
R.implements(f'{FKK}._submit_task', f'{PRK}._submit_task', self_type='Obj[ForkProcessRunner]',
    frame=['executor._pending_future_to_thunk', 'executor._running_id_to_future_and_process', 'Fut._state', 'Fut._ex', 'Fut._result', '@STARTED'],
    assume_after={'submit': [C("fut_task(result) == Inst_to_Task(task)", 'GHOST definition: the future created here is the future of this task (the thunk closes over `task`)')]})

# ---- fork backend: the child-side wrapper looks the runner's memory up by uuid and filters the context itself (C16)
R.record('Mem', immutable={'context': 'Ctx', 'storage': 'Storage', 'results_map': 'RMapRef'}, cls='labtech.runners.process:RunnerMemory', ctor_kwargs=True, value=True)
R.func('Mem.context', ['Mem'], 'Ctx')
R.func('Mem.storage', ['Mem'], 'Storage')
R.func('Mem.results_map', ['Mem'], 'RMapRef')
R.globals['_RUNNER_FORK_MEMORY'] = 'Map[Uuid,Mem]'      # module global inherited by forked children
R.contract('trusted:SubFn.__call__', trusted=True, self_type='SubFn',
    params={'task': 'Inst', 'task_name': 'Str', 'use_cache': 'Bool', 'results_map': 'RMapRef', 'filtered_context': 'Ctx',
            'storage': 'Storage', 'process_event_queue': 'Queue', 'log_queue': 'Queue'},
    returns='Res', raises={'BaseException': []}, frame=['Inst.context', 'Inst._results_map'],
    note='the `_subprocess_func` argument: ForkProcessRunner._submit_task always passes the bound method ProcessRunner._subprocess_func, '
         'whose own contract (c70) says it runs run_or_load_task with exactly the filtered_context it was given')
R.alias('SubFn', '__call__', 'trusted:SubFn.__call__')
R.contract(f'{FKK}._fork_subprocess_func',
    params={'_subprocess_func': 'SubFn', 'task': 'Inst', 'task_name': 'Str', 'use_cache': 'Bool', 'process_event_queue': 'Queue', 'log_queue': 'Queue', 'uuid': 'Uuid'},
    returns='Res',
    requires=[C("uuid in _RUNNER_FORK_MEMORY", 'the runner registered its memory under this uuid before forking (ForkProcessRunner.__init__), and close() runs after the last task')],
    at_call={'__call__': [
        C("arg_filtered_context == filter_ctx(Inst_to_Task(task), _RUNNER_FORK_MEMORY[uuid].context)",
          'FORK: the child filters the Lab context inherited through the runner memory with the task\'s own filter_context', serves=('C16',)),
        C("(arg_storage == _RUNNER_FORK_MEMORY[uuid].storage) and (arg_results_map == _RUNNER_FORK_MEMORY[uuid].results_map) and (arg_task == task) and (arg_use_cache == use_cache)",
          'FORK: storage, results and the task itself are the inherited ones', serves=('C16', 'C01'))]},
    raises={'BaseException': []}, frame=['Inst.context', 'Inst._results_map'])

# ---- which start method each backend asks for, and that the executor is built with it (C16, C04)
R.func('ctx_method', ['MpCtx'], 'Str')               # the start method of a multiprocessing context object
R.contract('trusted:multiprocessing.get_context', trusted=True, params={'method': 'Str'}, returns='MpCtx', pure=True,
    ensures=["ctx_method(result) == method"], note='multiprocessing.get_context(m) returns the context object whose processes are started with method m')
R.func('CPU_COUNT', [], 'Int')
R.axiom("CPU_COUNT() >= 1", name='A-limits: os.cpu_count() is an int >= 1')
R.contract('trusted:os.cpu_count', trusted=True, params={}, returns='Int', pure=True, defn='CPU_COUNT()')
R.contract('trusted:multiprocessing.Manager', trusted=True, params={}, returns='Manager', frame=[], note='multiprocessing.Manager(): a manager server process (not tracked)')
R.contract('trusted:Manager.Queue', trusted=True, self_type='Manager', params={'maxsize': 'Int'}, returns='Queue', frame=[], note='multiprocessing.Manager().Queue(-1): a fresh shared queue')
R.alias('Manager', 'Queue', 'trusted:Manager.Queue')
R.contract(f'{PEK}.__init__', self_type='Obj[ProcessExecutor]', params={'mp_context': 'MpCtx', 'max_workers': 'Opt[Int]'},
    requires=[C("isnone(max_workers) or (unopt(max_workers) >= 1)", 'A-limits: max_workers is None or >= 1')],
    ensures=[C("self.mp_context == mp_context", 'the executor keeps the context it was given', serves=('C16',)),
             C("self.max_workers == (CPU_COUNT() if isnone(max_workers) else unopt(max_workers))", 'the worker ceiling is max_workers, or the CPU count when None', serves=('C04', 'C05')),
             C("INV(self)", 'a new executor satisfies its invariant (nothing queued, nothing running)', serves=('C04', 'C11', 'C01'))],
    raises={}, frame=['self.*'])
R.contract(f'{FKK}._get_mp_context', self_type='Obj[ForkProcessRunner]', params={}, returns='MpCtx',
    ensures=[C("ctx_method(result) == 'fork'", 'the fork backend asks for the fork start method', serves=('C16',))], raises={}, frame=[])
R.contract(f'{SPK}._get_mp_context', self_type='Obj[SpawnProcessRunner]', params={}, returns='MpCtx',
    ensures=[C("ctx_method(result) == 'spawn'", 'the spawn backend asks for the spawn start method', serves=('C16',))], raises={}, frame=[])

# the abstract hook and its two implementations, read through the per-class view METHOD
R.classes[PRK].ghost['START_METHOD'] = 'Str'            # GHOST: the start method this runner class stands for (fixed per class by the views below)
R.classes[PRK].views['METHOD'] = 'self.START_METHOD'
R.classes[FKK].views = dict(R.classes[PRK].views, METHOD="'fork'")
R.classes[SPK].views = dict(R.classes[PRK].views, METHOD="'spawn'")
R.view_names |= {'METHOD'}
R.contract(f'{PRK}._get_mp_context', abstract=True, self_type='Obj[ProcessRunner]', params={}, returns='MpCtx',
    ensures=[C("ctx_method(result) == METHOD(self)", 'the backend\'s own start method', serves=('C16',))], raises={}, frame=[])
del R.contracts[f'{FKK}._get_mp_context'], R.contracts[f'{SPK}._get_mp_context']
R.implements(f'{FKK}._get_mp_context', f'{PRK}._get_mp_context', self_type='Obj[ForkProcessRunner]', frame=[])
R.implements(f'{SPK}._get_mp_context', f'{PRK}._get_mp_context', self_type='Obj[SpawnProcessRunner]', frame=[])
R.cls('labtech.runners.process:ProcessMonitor', fields={})
R.classes[PRK].fields['process_monitor'] = 'Obj[ProcessMonitor]'
R.contract('labtech.runners.process:ProcessMonitor.__init__', trusted=True, self_type='Obj[ProcessMonitor]', params={'process_event_queue': 'Queue'}, frame=['self.*'],
    note='display only (top-style monitor)')
R.contract(f'{PRK}.__init__', self_type='Obj[ProcessRunner]', params={'context': 'Ctx', 'storage': 'Storage', 'max_workers': 'Opt[Int]'},
    requires=[C("isnone(max_workers) or (unopt(max_workers) >= 1)", 'A-limits')],
    ensures=[C("ctx_method(self.executor.mp_context) == METHOD(self)", 'the executor is built with the backend\'s own start method', serves=('C16',)),
             C("self.executor.max_workers == (CPU_COUNT() if isnone(max_workers) else unopt(max_workers))", 'and with the Lab\'s worker ceiling', serves=('C04', 'C05')),
             C("INV(self)", 'a new runner satisfies its invariant', serves=('C11', 'C04')),
             C("empty(INFLIGHT(self)) and forall('Task', lambda t: t not in RES(self))", 'nothing in flight, nothing held', serves=('C17', 'C01'))],
    raises={}, frame=['self.*'])
