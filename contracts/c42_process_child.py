# Child-side functions and the spawn/fork submit paths (labtech/runners/process.py) -- DESIGN 6.D
PRK = 'labtech.runners.process:ProcessRunner'
SPK = 'labtech.runners.process:SpawnProcessRunner'
FKK = 'labtech.runners.process:ForkProcessRunner'
PEK = 'labtech.runners.process:ProcessExecutor'

R.annotation_sorts.update({'LabContext': 'Ctx'})
R.global_objects.update({'logger': 'Logger', 'sys': 'SysModule'})
R.cls('trusted:Logger', fields={'handlers': 'HandlerList', 'info': 'LogFn', 'error': 'LogFn'})
R.cls('trusted:SysModule', fields={'stdout': 'Stream', 'stderr': 'Stream'})
R.classes['trusted:Logger'].key = 'trusted:Logger'
R.globals['SIGINT_IGNORED'] = 'Bool'       # GHOST: has this process set SIGINT to SIG_IGN

R.record('Queue', mutable={'puts': 'Int'})
R.contract('trusted:Queue.put', trusted=True, self_type='Queue', params={}, varargs=True,
    ensures=["forall('Queue', lambda q: q.puts == (old(q.puts) + 1 if q == self else old(q.puts)))"], frame=['Queue.puts'],
    note='Manager().Queue.put: the item becomes visible to a later get in another process (causality assumed)')
R.alias('Queue', 'put', 'trusted:Queue.put')
R.contract('trusted:Thunk.__call__', trusted=True, self_type='Thunk', params={}, returns='Res', raises={'BaseException': []}, frame=['Inst.context', 'Inst._results_map'],
    note='functools.partial of the child function: runs it')
R.alias('Thunk', '__call__', 'trusted:Thunk.__call__')
R.func('Res_to_QItem', ['Res'], 'QItem')
R.func('Exc_to_QItem', ['Exc'], 'QItem')

R.contract('labtech.runners.process:_subprocess_target',
    params={'future_id': 'Fid', 'thunk': 'Thunk', 'result_queue': 'Queue'},
    ensures=[C("result_queue.puts == old(result_queue.puts) + 1", 'exactly one item (the result or the exception) is put on the result queue, whatever the thunk does', serves=('C10', 'C11'))],
    raises={}, frame=['Queue.puts', 'Inst.context', 'Inst._results_map'])

R.contract('trusted:signal.signal', trusted=True, params={'sig': 'Sig', 'handler': 'SigHandler'},
    ensures=["@SIGINT_IGNORED"] if False else [], frame=['@SIGINT_IGNORED'], varargs=True)

R.cls(SPK, bases=(PRK,), fields={'context': 'Ctx', 'storage': 'Storage'})
R.cls(FKK, bases=(PRK,), fields={'uuid': 'Uuid'})

R.implements(f'{SPK}._submit_task', f'{PRK}._submit_task', self_type='Obj[SpawnProcessRunner]',
    frame=['executor._pending_future_to_thunk', 'executor._running_id_to_future_and_process', 'Fut._state', 'Fut._ex', 'Fut._result'],
    cand_locals=('results_map', 'filtered_context'),
    at_call={'submit': [
        C("implies(not use_cache, forall('Task', lambda d: implies((d in deps(Inst_to_Task(task))) and (d in RES(self)), (d in results_map) and (results_map[d] == RES(self)[d]))))",
          'SNAPSHOT: every held result of a dependency is copied into the map sent to the child', serves=('C01', 'C02')),
        C("implies(not use_cache, filtered_context == filter_ctx(Inst_to_Task(task), self.context))",
          'the child is sent the task\'s own filter_context applied to the Lab context', serves=('C16',)),
    ]},
    assume_after={'submit': [C("fut_task(result) == Inst_to_Task(task)", 'GHOST definition: the future created here is the future of this task (the thunk closes over `task`)')]})
R.implements(f'{FKK}._submit_task', f'{PRK}._submit_task', self_type='Obj[ForkProcessRunner]',
    frame=['executor._pending_future_to_thunk', 'executor._running_id_to_future_and_process', 'Fut._state', 'Fut._ex', 'Fut._result'],
    assume_after={'submit': [C("fut_task(result) == Inst_to_Task(task)", 'GHOST definition: the future created here is the future of this task (the thunk closes over `task`)')]})
