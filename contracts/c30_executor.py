# Future / ProcessExecutor (labtech/runners/process.py) -- DESIGN 6.D
PE = 'labtech.runners.process:ProcessExecutor'
FU = 'labtech.runners.process:Future'

R.enum('FutureState', ['PENDING', 'CANCELLED', 'FINISHED'])
R.func('Fut.id', ['Fut'], 'Fid')
# A-ids (trusted): itertools.count() hands out distinct ids, so a future is determined by its id
R.axiom("forall('Fut','Fut', lambda f, g: implies(f.id == g.id, f == g))", name='A-ids')

R.record('Fut', cls=FU,
    mutable={'_state': 'FutureState', '_ex': 'Opt[Exc]', '_result': 'Opt[Res]'},
    immutable={'id': 'Fid'},
    pure={'done': '(self._state == FutureState.FINISHED) or (self._state == FutureState.CANCELLED)',
          'cancelled': 'self._state == FutureState.CANCELLED'},
    ctor={'_state': 'FutureState.PENDING', '_ex': 'None', '_result': 'None'},
    ctor_assume=[C("result.id not in STARTED", 'A-ids-fresh: itertools.count() hands a new future an id for which no process has been started yet')])
R.annotation_sorts.update({'Future': 'Fut'})

R.contract(f'{FU}.done', self_type='Fut', returns='Bool', pure=True,
    ensures=["result == ((self._state == FutureState.FINISHED) or (self._state == FutureState.CANCELLED))"], serves=('C11', 'C14', 'C10'))
R.contract(f'{FU}.cancelled', self_type='Fut', returns='Bool', pure=True,
    ensures=["result == (self._state == FutureState.CANCELLED)"], serves=('C11', 'C14'))
R.contract(f'{FU}.set_result', self_type='Fut', params={'result': 'Res'},
    ensures=["forall('Fut', lambda f: f._state == (FutureState.FINISHED if f == self else old(f._state)))",
             "forall('Fut', lambda f: implies(f != self, (f._result == old(f._result)) and (f._ex == old(f._ex))))",
             "(not isnone(self._result)) and (unopt(self._result) == result)"],
    raises={'FutureStateError': ["old(self.done)", "forall('Fut', lambda f: f._state == old(f._state))"]},
    frame=['Fut._state', 'Fut._result'])
R.contract(f'{FU}.set_exception', self_type='Fut', params={'ex': 'Exc'},
    ensures=["forall('Fut', lambda f: f._state == (FutureState.FINISHED if f == self else old(f._state)))",
             "forall('Fut', lambda f: implies(f != self, (f._result == old(f._result)) and (f._ex == old(f._ex))))",
             "(not isnone(self._ex)) and (unopt(self._ex) == ex)"],
    raises={'FutureStateError': ["old(self.done)", "forall('Fut', lambda f: f._state == old(f._state))"]},
    frame=['Fut._state', 'Fut._ex'])
R.contract(f'{FU}.cancel', self_type='Fut', params={},
    ensures=["forall('Fut', lambda f: f._state == (FutureState.CANCELLED if f == self else old(f._state)))"],
    frame=['Fut._state'])
R.contract(f'{FU}.result', self_type='Fut', params={}, returns='Res',
    requires=[C("implies((self._state == FutureState.FINISHED) and isnone(self._ex), not isnone(self._result))",
                'A-future-rep: a future that finished without an exception holds a TaskResult (set_result is the only writer of that state and stores its argument)', serves=('A-future-rep',))],
    ensures=["old(self._state) == FutureState.FINISHED", "isnone(self._ex)", "result == unopt(self._result)"],
    raises={'BaseException': [C("((self._state != FutureState.FINISHED) and exc_is(exc, 'FutureStateError')) or ((self._state == FutureState.FINISHED) and (not isnone(self._ex)) and (exc == unopt(self._ex)))",
                                'raises the stored exception of a finished future, or FutureStateError when not finished')]},
    frame=[])

R.contract('labtech.runners.process:split_done_futures',
    params={'futures': 'UList[Fut]'}, returns='Tuple[UList[Fut],UList[Fut]]',
    locals={'done_futures': 'UList[Fut]', 'not_done_futures': 'UList[Fut]'},
    ensures=["forall('Fut', lambda f: (f in result[0]) == ((f in futures) and f.done))",
             "forall('Fut', lambda f: (f in result[1]) == ((f in futures) and (not f.done)))"],
    frame=[],
    cand_locals=('done_futures', 'not_done_futures'),
    candidates=["forall('Fut', lambda f: (f in done_futures) == ((f in __done__) and f.done))",
                "subset(done_futures, __done__) and subset(not_done_futures, __done__)",
                "forall('Fut', lambda f: (f in not_done_futures) == ((f in __done__) and (not f.done)))"])

# ---- the executor
R.macro('PEND', ['e'], 'e._pending_future_to_thunk')
R.macro('RUN', ['e'], 'e._running_id_to_future_and_process')
R.named_tuples['Tuple[Fut,Proc]'] = ['fut', 'proc']
R.cls(PE,
    fields={'mp_context': 'MpCtx', 'max_workers': 'Int',
            '_pending_future_to_thunk': 'Map[Fut,Thunk]',
            '_running_id_to_future_and_process': 'Map[Fid,Tuple[Fut,Proc]]',
            '_result_queue': 'Queue'},
    invariant=[
        C("card(dom(RUN(self))) <= self.max_workers", 'E1: running <= max_workers', serves=('C04',)),
        C("forall('Fid', lambda i: implies(i in RUN(self), RUN(self)[i][0].id == i))", 'E2: running map keyed by future id'),
        C("forall('Fid', lambda i: implies(i in RUN(self), not RUN(self)[i][0].done))", 'E3a: running futures are pending'),
        C("forall('Fut', lambda f: implies(f in PEND(self), not f.done))", 'E3b: queued futures are pending'),
        C("forall('Fut', lambda f: implies(f in PEND(self), f.id not in RUN(self)))", 'E4: queued and running are disjoint'),
        C("self.max_workers >= 1", 'E0: max_workers >= 1 (A-limits)'),
        C("forall('Fid', lambda i: implies(i in RUN(self), i not in DELIVERED))", 'E5: the item of a running future has not been taken off the queue yet', serves=('C01',)),
        C("forall('Fid', lambda i: implies(i in RUN(self), proc_fid(RUN(self)[i][1]) == i))", 'E6: a running entry pairs a future with the process started for it', serves=('C01',)),
        C("forall('Fut', lambda f: implies(f in PEND(self), f.id not in STARTED))", 'E7: a queued future has not been started', serves=('C01',)),
        C("subset(DELIVERED, STARTED)", 'E8 (world invariant of the TRUSTED queue model, assumed): only items of started processes have ever been delivered -- '
                                        'both sets are written by trusted primitives only (get delivers ids in STARTED, start only adds)', serves=('A-queue',)),
    ])

# trusted multiprocessing / threading / queue primitives (assumed contracts; every use is counted in the evidence)
R.func('proc_ctx', ['Proc'], 'MpCtx')          # which multiprocessing context created the process object
R.func('DEFAULT_MP_CTX', [], 'MpCtx')          # the interpreter-wide default start method (fork on Linux)
R.func('proc_fid', ['Proc'], 'Fid')            # future id passed to the child
R.func('proc_thunk', ['Proc'], 'Thunk')
# ---- ghost time for the one place where the ORDER of two observations of the outside world matters (C01, C10):
#      _consume_result_queue samples is_alive() BEFORE it drains the result queue.  QEPOCH counts the get() calls made so far;
#      alive_at(p, e) is what is_alive() answers for p at epoch e; DELIVERED are the future ids whose item has been taken off
#      the queue; put_result(p): process p put an item on the result queue before it exited.
R.func('alive_at', ['Proc', 'Int'], 'Bool')
R.func('put_result', ['Proc'], 'Bool')
R.globals['QEPOCH'] = 'Int'
R.globals['DELIVERED'] = 'Set[Fid]'
R.macro('NOSTALE', ['ex'], "forall('Fid', lambda j: implies((j in DELIVERED) and (j not in old(DELIVERED)), j in old(RUN(ex))))")
R.globals['STARTED'] = 'Set[Fid]'         # GHOST: future ids for which a process has been started
R.axiom("forall('Proc','Int','Int', lambda p, a, b: implies((a <= b) and (not alive_at(p, a)), not alive_at(p, b)))",
        name='TRUSTED: a process that is_alive() reported dead stays dead')
R.named_tuples['Tuple[Fid,Thunk,Queue]'] = ['future_id', 'thunk', 'result_queue']
R.contract('trusted:multiprocessing.Process', trusted=True,
    params={'target': 'TargetFn', 'kwargs': 'Tuple[Fid,Thunk,Queue]'}, returns='Proc',
    ensures=["proc_ctx(result) == DEFAULT_MP_CTX()", "proc_fid(result) == kwargs[0]", "proc_thunk(result) == kwargs[1]"],
    note='multiprocessing.Process is the DEFAULT context\'s Process class')
R.contract('trusted:MpCtx.Process', trusted=True, self_type='MpCtx',
    params={'target': 'TargetFn', 'kwargs': 'Tuple[Fid,Thunk,Queue]'}, returns='Proc',
    ensures=["proc_ctx(result) == self", "proc_fid(result) == kwargs[0]", "proc_thunk(result) == kwargs[1]"],
    note='BaseContext.Process creates a process that is started with that context\'s start method')
R.alias('MpCtx', 'Process', 'trusted:MpCtx.Process')
R.contract('trusted:Proc.start', trusted=True, self_type='Proc', params={}, ensures=["STARTED == sadd(old(STARTED), proc_fid(self))"], frame=['@STARTED'],
    note='starts the child (ghost: its future id joins STARTED)')
R.alias('Proc', 'start', 'trusted:Proc.start')
R.contract('trusted:Proc.terminate', trusted=True, self_type='Proc', params={}, frame=[])
R.alias('Proc', 'terminate', 'trusted:Proc.terminate')
R.contract('trusted:Proc.is_alive', trusted=True, self_type='Proc', params={}, returns='Bool', pure=True, defn='alive_at(self, QEPOCH)',
    note='Process.is_alive() at the current ghost epoch')
R.alias('Proc', 'is_alive', 'trusted:Proc.is_alive')
R.contract('trusted:functools.partial', trusted=True, params={}, returns='Thunk', varargs=True, pure=False, frame=[])
R.contract('trusted:Queue.get', trusted=True, self_type='Queue', params={'block': 'Bool', 'timeout': 'Opt[Int]'},
    returns='Tuple[Fid,ResOrEx]',
    ensures=[C("QEPOCH == old(QEPOCH) + 1", 'ghost clock'),
             C("(result[0] not in old(DELIVERED)) and (DELIVERED == sadd(old(DELIVERED), result[0]))", 'TRUSTED: each queued item is delivered exactly once'),
             C("result[0] in STARTED", 'TRUSTED: only a started process can have put an item')],
    raises={'Empty': [C("QEPOCH == old(QEPOCH) + 1", 'ghost clock'), C("DELIVERED == old(DELIVERED)", 'nothing delivered'),
                      C("forall('Proc', lambda p: implies((not alive_at(p, old(QEPOCH))) and put_result(p), proc_fid(p) in DELIVERED))",
                        'TRUSTED causality of Manager().Queue: when get() reports the queue empty, every item put by a process that had already exited '
                        'when this get() was called has been delivered (a put that returned in the child is visible to a later get in the parent)')]},
    frame=['@QEPOCH', '@DELIVERED'],
    note='Manager().Queue.get: returns some queued (future_id, result_or_exception) pair or raises queue.Empty')
R.alias('Queue', 'get', 'trusted:Queue.get')
R.func('roe_is_exc', ['ResOrEx'], 'Bool')
R.func('roe_exc', ['ResOrEx'], 'Exc')
R.func('roe_val', ['ResOrEx'], 'Res')
R.isinstance_tests[('ResOrEx', 'BaseException')] = 'roe_is_exc(x)'
R.func('ResOrEx_to_Exc', ['ResOrEx'], 'Exc')
R.func('ResOrEx_to_Res', ['ResOrEx'], 'Res')
R.const_names = {'_subprocess_target': 'TargetFn'}

R.contract(f'{PE}._start_processes',
    self_type='Obj[ProcessExecutor]', params={},
    requires=['INV(self)'],
    ensures=['INV(self)',
             C("empty(PEND(self)) or (card(dom(RUN(self))) >= self.max_workers)", 'rest: queue empty or workers full', serves=('C05', 'C11')),
             C("forall('Fut', lambda f: implies(f in PEND(self), f in old(PEND(self))))", 'queue only shrinks'),
             C("forall('Fid', lambda i: implies(i in old(RUN(self)), (i in RUN(self)) and (RUN(self)[i] == old(RUN(self))[i])))", 'running entries kept'),
             C("forall('Fut', lambda f: implies((f in old(PEND(self))) and (f not in PEND(self)), (f.id in RUN(self)) and (RUN(self)[f.id][0] == f)))",
               'every dequeued future is registered as running', serves=('C11', 'C05', 'C10', 'C01')),
             C("forall('Fid', lambda i: implies((i in RUN(self)) and (i not in old(RUN(self))), (RUN(self)[i][0] in old(PEND(self))) and (proc_ctx(RUN(self)[i][1]) == self.mp_context) and (proc_fid(RUN(self)[i][1]) == i)))",
               'each started future gets a process created from the backend\'s own context', serves=('C16',)),
             C("forall('Fut', lambda f: implies(f in PEND(self), PEND(self)[f] == old(PEND(self))[f]))", 'thunks kept'),
             ],
    frame=['self._pending_future_to_thunk', 'self._running_id_to_future_and_process', '@STARTED'],
    cand_locals=('futures_to_start', 'start_count'),
    candidates=[
        "forall('Fid', lambda i: implies(i in RUN(self), RUN(self)[i][0].id == i))",
        "forall('Fid', lambda i: implies(i in RUN(self), not RUN(self)[i][0].done))",
        "forall('Fut', lambda f: implies(f in PEND(self), not f.done))",
        "forall('Fut', lambda f: implies(f in PEND(self), f.id not in RUN(self)))",
        "forall('Fut', lambda f: (f in PEND(self)) == ((f in old(PEND(self))) and (f not in __done__)))",
        "forall('Fut', lambda f: implies(f in PEND(self), PEND(self)[f] == old(PEND(self))[f]))",
        "forall('Fid', lambda i: implies(i in old(RUN(self)), (i in RUN(self)) and (RUN(self)[i] == old(RUN(self))[i])))",
        "forall('Fid', lambda i: implies((i in RUN(self)) and (i not in old(RUN(self))), (RUN(self)[i][0] in __done__) and (RUN(self)[i][0] in old(PEND(self))) and (proc_ctx(RUN(self)[i][1]) == self.mp_context) and (proc_fid(RUN(self)[i][1]) == i)))",
        "forall('Fid', lambda i: implies((i in RUN(self)) and (i not in old(RUN(self))), (RUN(self)[i][0] in __done__) and (RUN(self)[i][0] in old(PEND(self)))))",
        "forall('Fut', lambda f: implies(f in __done__, (f.id in RUN(self)) and (RUN(self)[f.id][0] == f)))",
        "card(dom(RUN(self))) == card(dom(old(RUN(self)))) + card(__done__)",
        "subset(futures_to_start, dom(old(PEND(self))))",
        "forall('Fid', lambda i: implies(i in RUN(self), i not in DELIVERED))",
        "forall('Fid', lambda i: implies(i in RUN(self), proc_fid(RUN(self)[i][1]) == i))",
        "forall('Fut', lambda f: implies(f in PEND(self), f.id not in STARTED))",
        "subset(DELIVERED, STARTED)",
        "subset(old(STARTED), STARTED)",
        "forall('Fid', lambda i: implies((i in STARTED) and (i not in old(STARTED)), exists('Fut', lambda f: (f in __done__) and (f.id == i))))",
    ])

R.contract(f'{PE}.submit',
    self_type='Obj[ProcessExecutor]', params={}, returns='Fut', varargs=True,
    requires=['INV(self)'],
    ensures=['INV(self)',
             C("empty(PEND(self)) or (card(dom(RUN(self))) >= self.max_workers)", 'rest: queue empty or workers full', serves=('C05', 'C11')),
             C("not old(result.done) or True", 'fresh future'),
             C("(result in PEND(self)) or ((result.id in RUN(self)) and (RUN(self)[result.id][0] == result))", 'the new future is queued or running', serves=('C11', 'C01', 'C10')),
             C("(result not in old(PEND(self))) and (result.id not in old(RUN(self)))", 'the future is new'),
             C("forall('Fut', lambda f: implies(f in old(PEND(self)), (f in PEND(self)) or ((f.id in RUN(self)) and (RUN(self)[f.id][0] == f))))", 'nothing queued is lost', serves=('C11',)),
             C("forall('Fid', lambda i: implies(i in old(RUN(self)), (i in RUN(self)) and (RUN(self)[i] == old(RUN(self))[i])))", 'running entries kept'),
             C("forall('Fut', lambda f: implies(f != result, f._state == old(f._state)))", 'other futures untouched'),
             C("forall('Fid', lambda i: implies((i in RUN(self)) and (i not in old(RUN(self))), (proc_ctx(RUN(self)[i][1]) == self.mp_context)))", 'started from own context', serves=('C16',)),
             ],
    frame=['self._pending_future_to_thunk', 'self._running_id_to_future_and_process', 'Fut._state', 'Fut._ex', 'Fut._result', '@STARTED'])

R.contract(f'{PE}.cancel',
    self_type='Obj[ProcessExecutor]', params={},
    requires=['INV(self)'],
    ensures=['INV(self)', C("empty(PEND(self))", 'queue emptied', serves=('C14', 'C11')),
             C("forall('Fut', lambda f: f._state == (FutureState.CANCELLED if f in old(PEND(self)) else old(f._state)))", 'exactly the queued futures are cancelled', serves=('C14', 'C11'))],
    frame=['self._pending_future_to_thunk', 'Fut._state'],
    candidates=[
        "forall('Fut', lambda f: (f in PEND(self)) == ((f in old(PEND(self))) and (f not in __done__)))",
        "forall('Fut', lambda f: f._state == (FutureState.CANCELLED if f in __done__ else old(f._state)))",
        "forall('Fut', lambda f: implies(f in PEND(self), not f.done))",
    ])

R.contract(f'{PE}.stop',
    self_type='Obj[ProcessExecutor]', params={},
    requires=['INV(self)'],
    ensures=['INV(self)', C("empty(RUN(self))", 'nothing left running', serves=('C14', 'C11')),
             C("forall('Fut', lambda f: f._state == (FutureState.CANCELLED if exists('Fid', lambda i: (i in old(RUN(self))) and (old(RUN(self))[i][0] == f)) else old(f._state)))",
               'exactly the running futures are cancelled', serves=('C14', 'C11'))],
    frame=['self._running_id_to_future_and_process', 'Fut._state'],
    candidates=[
        "forall('Fid', lambda i: (i in RUN(self)) == ((i in old(RUN(self))) and (i not in __done__)))",
        "forall('Fid', lambda i: implies(i in RUN(self), RUN(self)[i] == old(RUN(self))[i]))",
        "forall('Fut', lambda f: f._state == (FutureState.CANCELLED if exists('Fid', lambda i: (i in __done__) and (old(RUN(self))[i][0] == f)) else old(f._state)))",
        "forall('Fid', lambda i: implies(i in RUN(self), not RUN(self)[i][0].done))",
        "forall('Fid', lambda i: implies(i in RUN(self), RUN(self)[i][0].id == i))",
    ])

R.contract(f'{PE}._consume_result_queue',
    self_type='Obj[ProcessExecutor]', params={'timeout_seconds': 'Opt[Int]'},
    requires=['INV(self)'],
    ensures=['INV(self)',
             C("forall('Fid', lambda i: implies(i in RUN(self), (i in old(RUN(self))) and (RUN(self)[i] == old(RUN(self))[i])))", 'running only shrinks'),
             C("forall('Fid', lambda i: implies((i in old(RUN(self))) and (i not in RUN(self)), old(RUN(self))[i][0].done))",
               'a future leaves the running map only when it is done', serves=('C11', 'C10', 'C01')),
             C("forall('Fid', lambda i: implies((i in old(RUN(self))) and (not alive_at(old(RUN(self))[i][1], old(QEPOCH))), i not in RUN(self)))",
               'a process sampled dead does not stay registered as running', serves=('C11', 'C05', 'C10')),
             C("forall('Fut', lambda f: implies(old(f.done), f._state == old(f._state)))", 'done futures never change state', serves=('C11', 'C14')),
             C("implies(NOSTALE(self), forall('Fid', lambda i: implies((i in old(RUN(self))) and (i not in RUN(self)) and (i not in DELIVERED), not put_result(old(RUN(self))[i][1]))))",
               'DIED-FOR-REAL: a future that leaves the running map without its item having been delivered (i.e. is failed with TaskDiedError) belongs to a process '
               'that exited without putting a result -- a task whose result is on the queue is never reported as died. Hypothesis NOSTALE: every item delivered in this '
               'call belonged to a future registered as running (an item left behind by a process that stop() terminated makes the consumer thread die; only after a second interrupt)',
               serves=('C01', 'C10')),
             ],
    frame=['self._running_id_to_future_and_process', 'Fut._state', 'Fut._ex', 'Fut._result', '@QEPOCH', '@DELIVERED'],
    cand_locals=('dead_process_futures',),
    candidates=[
        "QEPOCH >= old(QEPOCH)",
        "subset(old(DELIVERED), DELIVERED)",
        "forall('Fid', lambda i: implies(i in RUN(self), i not in DELIVERED))",
        "forall('Fid', lambda i: implies(i in RUN(self), proc_fid(RUN(self)[i][1]) == i))",
        "forall('Fut', lambda f: implies(f in PEND(self), f.id not in STARTED))",
        "subset(DELIVERED, STARTED)",
        "forall('Fid', lambda i: implies((i in old(RUN(self))) and (i not in RUN(self)), i in DELIVERED))",
        "forall('Fid', lambda i: implies((i in old(RUN(self))) and (i in DELIVERED), old(RUN(self))[i][0].done))",
        "implies(NOSTALE(self), forall('Fid', lambda i: implies((i in old(RUN(self))) and (i not in RUN(self)) and (i not in DELIVERED), not put_result(old(RUN(self))[i][1]))))",
        "forall('Fid', lambda i: implies((i in DELIVERED) and (i not in old(DELIVERED)) and (i in old(RUN(self))), i not in RUN(self)))",
        "forall('Fut', lambda f: implies(f in dead_process_futures, exists('Fid', lambda i: (i in old(RUN(self))) and (old(RUN(self))[i][0] == f) and (not alive_at(old(RUN(self))[i][1], old(QEPOCH))) and (proc_fid(old(RUN(self))[i][1]) == i))))",
        "implies(NOSTALE(self), forall('Fid', lambda i: implies((i in old(RUN(self))) and (not alive_at(old(RUN(self))[i][1], old(QEPOCH))) and put_result(old(RUN(self))[i][1]), i in DELIVERED)))",

        "forall('Fid', lambda i: implies(i in RUN(self), RUN(self)[i][0].id == i))",
        "forall('Fid', lambda i: implies(i in RUN(self), not RUN(self)[i][0].done))",
        "forall('Fid', lambda i: implies(i in RUN(self), (i in old(RUN(self))) and (RUN(self)[i] == old(RUN(self))[i])))",
        "forall('Fid', lambda i: implies((i in old(RUN(self))) and (i not in RUN(self)), old(RUN(self))[i][0].done))",
        "forall('Fut', lambda f: implies(old(f.done), f._state == old(f._state)))",
        "card(dom(RUN(self))) <= self.max_workers",
        "forall('Fut', lambda f: implies(f in PEND(self), not f.done))",
        "forall('Fut', lambda f: implies(f in PEND(self), f.id not in RUN(self)))",
        "forall('Fut', lambda f: implies(f in dead_process_futures, exists('Fid', lambda i: (i in old(RUN(self))) and (old(RUN(self))[i][0] == f) and (not alive_at(old(RUN(self))[i][1], old(QEPOCH))))))",
        "forall('Fid', lambda i: implies((i in old(RUN(self))) and (not alive_at(old(RUN(self))[i][1], old(QEPOCH))), old(RUN(self))[i][0] in dead_process_futures))",
        "forall('Fut', lambda f: implies((f in __done__) and exists('Fid', lambda i: (i in old(RUN(self))) and (old(RUN(self))[i][0] == f)), f.id not in RUN(self)))",
    ])

R.contract(f'{PE}.wait',
    self_type='Obj[ProcessExecutor]', params={'futures': 'UList[Fut]', 'timeout_seconds': 'Opt[Int]'},
    returns='Tuple[UList[Fut],UList[Fut]]',
    requires=['INV(self)'],
    ensures=['INV(self)',
             C("empty(PEND(self)) or (card(dom(RUN(self))) >= self.max_workers)", 'rest: queue empty or workers full', serves=('C05', 'C11')),
             C("forall('Fut', lambda f: (f in result[0]) == ((f in futures) and f.done))", 'first component: the done futures'),
             C("forall('Fut', lambda f: (f in result[1]) == ((f in futures) and (not f.done)))", 'second component: the others'),
             C("forall('Fut', lambda f: implies(old(f.done), f._state == old(f._state)))", 'done futures never change state', serves=('C11', 'C14')),
             C("forall('Fut', lambda f: implies(f in PEND(self), f in old(PEND(self))))", 'queue only shrinks'),
             C("forall('Fut', lambda f: implies((f in old(PEND(self))) and (f not in PEND(self)), (f.id in RUN(self)) and (RUN(self)[f.id][0] == f)))", 'dequeued futures are running', serves=('C11',)),
             C("forall('Fid', lambda i: implies((i in old(RUN(self))) and (i not in RUN(self)), old(RUN(self))[i][0].done))", 'a future leaves the running map only when done', serves=('C11', 'C10')),
             C("forall('Fid', lambda i: implies((i in RUN(self)) and (i not in old(RUN(self))), (proc_ctx(RUN(self)[i][1]) == self.mp_context)))", 'started from own context', serves=('C16',)),
             ],
    frame=['self._pending_future_to_thunk', 'self._running_id_to_future_and_process', 'Fut._state', 'Fut._ex', 'Fut._result', '@QEPOCH', '@DELIVERED', '@STARTED'])


# C14, scope S2: a KeyboardInterrupt delivered at any statement boundary inside the executor's own methods leaves the
# executor well-formed (the coordinator's handler then calls cancel()/wait()/stop() on it)
R.macro('EXEC_SHAPE', ['e'], """forall('Fid', lambda i: implies(i in RUN(e), RUN(e)[i][0].id == i))
    and forall('Fut', lambda f: implies(f in PEND(e), f.id not in RUN(e)))""")
for _m in ('_start_processes', 'submit', 'cancel', 'stop', 'wait'):
    R.contracts[f'{PE}.{_m}'].interrupt_exit = [C('EXEC_SHAPE(self)', 'INTERRUPTED INSIDE: at every interrupt instant of this method the maps are well-formed: running entries keyed by the id of their future, and no future both queued and running', serves=('C14',))]

R.contracts[f'{PE}._consume_result_queue'].interrupt_exit = [
    C('EXEC_SHAPE(self)', 'INTERRUPTED INSIDE: the maps are well-formed at every interrupt instant', serves=('C14',)),
    C("forall('Fid', lambda i: implies(i in old(RUN(self)), ((i in RUN(self)) and (RUN(self)[i] == old(RUN(self))[i])) or old(RUN(self))[i][0].done))",
      'INTERRUPTED INSIDE: no future is left in limbo -- each future that was running is still registered as running or is done '
      '(results are applied by a helper thread precisely so that an interrupt cannot split "taken off the queue" from "set on the future")', serves=('C14', 'C11')),
    C("forall('Fid', lambda i: implies((i in DELIVERED) and (i not in old(DELIVERED)) and (i in old(RUN(self))), old(RUN(self))[i][0].done))",
      'INTERRUPTED INSIDE: every item taken off the result queue has been applied to its future (no received result is dropped)', serves=('C14', 'C01')),
]

# C14/C11: an interrupt inside _start_processes must not lose a future (taken off the queue but not yet registered as running):
# the runner would wait for it for ever.
R.contracts[f'{PE}._start_processes'].interrupt_exit = [
    C("forall('Fid', lambda i: implies(i in RUN(self), RUN(self)[i][0].id == i))", 'INTERRUPTED INSIDE: running entries are keyed by the id of their future', serves=('C14',)),
    C("forall('Fut', lambda f: implies((f in PEND(self)) and (f.id in RUN(self)), (RUN(self)[f.id][0] == f) and (f.id not in STARTED)))",
      'INTERRUPTED INSIDE: a future that is still queued while already registered as running has no started process yet '
      '(cancel() then cancels it and stop() has nothing to terminate for it)', serves=('C14',))] + [
    C("forall('Fut', lambda f: implies(f in old(PEND(self)), (f in PEND(self)) or ((f.id in RUN(self)) and (RUN(self)[f.id][0] == f))))",
      'INTERRUPTED INSIDE: no future is lost -- every future that was queued is still queued or is registered as running', serves=('C14', 'C11'))]
