# Shared sorts, functions, exception hierarchy.  `R` is the registry (pyvc.contract.Registry).

# ---- exception kinds (subset of Python's hierarchy that labtech code distinguishes)
for kind, parent in [
    ('BaseException', None), ('Exception', 'BaseException'), ('KeyboardInterrupt', 'BaseException'),
    ('SystemExit', 'BaseException'), ('GeneratorExit', 'BaseException'), ('OtherBaseException', 'BaseException'),
    ('KeyError', 'Exception'), ('IndexError', 'Exception'), ('ValueError', 'Exception'), ('TypeError', 'Exception'),
    ('FileExistsError', 'Exception'), ('FileNotFoundError', 'Exception'), ('OSError', 'Exception'),
    ('Empty', 'Exception'), ('PicklingError', 'Exception'), ('AttributeError', 'Exception'),
    ('LabtechError', 'Exception'), ('LabError', 'LabtechError'), ('RunnerError', 'LabtechError'),
    ('TaskDiedError', 'RunnerError'), ('TaskError', 'LabtechError'), ('StorageError', 'LabtechError'),
    ('SerializationError', 'LabtechError'), ('CacheError', 'LabtechError'), ('TaskNotFound', 'CacheError'),
    ('FutureStateError', 'Exception'), ('OtherException', 'Exception'), ('UnboundLocalError', 'Exception'),
]:
    R.exception(kind, parent)

# ---- task values, instances, types
#   Task : task *value* (== / hash identity of the frozen dataclass)      -- uninterpreted
#   Inst : task *instance* (object identity)                              -- uninterpreted, val = Inst_to_Task
#   Type : task type
R.func('Inst_to_Task', ['Inst'], 'Task')          # val(i); used as the implicit coercion Inst -> Task
R.func('type_of_Task', ['Task'], 'Type')
R.func('maxpar', ['Type'], 'Opt[Int]')            # task._lt.max_parallel, a function of the type
R.func('deps', ['Task'], 'Set[Task]')             # SPEC: values of all task instances anywhere in the parameters
R.func('rank', ['Task'], 'Int')                   # nesting depth; dependencies are structurally smaller
R.func('cacheable', ['Type'], 'Bool')             # task._lt.cache is not a NullCache

R.record('Task', pure={'_lt.max_parallel': 'maxpar(type_of_Task(self))'})
R.record('Inst', cls='labtech.tasks:<task instance>',
         mutable={'result_meta': 'Opt[Meta]', '_results_map': 'Opt[RMap]', 'context': 'Opt[Ctx]'},
         pure={'_lt.max_parallel': 'maxpar(type_of_Task(Inst_to_Task(self)))'})
R.identity_sorts = ('Inst',)

# A-acyclic (trusted): a task's dependencies are nested inside it, hence structurally smaller.
R.axiom("forall('Task', 'Task', lambda t, d: implies(d in deps(t), rank(d) < rank(t)))", name='A-acyclic')
R.axiom("forall('Task', lambda t: rank(t) >= 0)", name='A-rank-nat')
# A-limits (trusted): max_parallel is None or >= 1
R.axiom("forall('Type', lambda ty: implies(not isnone(maxpar(ty)), unopt(maxpar(ty)) >= 1))", name='A-limits')

R.transparent_cms |= {'logging_redirect_tqdm'}

# how source annotations of locals map to sorts (`x: OrderedSet[Task] = OrderedSet()`)
R.annotation_sorts = {'Task': 'Task', 'Future': 'Fut', 'TaskResult': 'Res', 'TaskSubmission': 'Sub'}
