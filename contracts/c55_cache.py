# cache.py / runners/base.py / Lab cache operations over an abstract file system -- DESIGN 6.E
CA = 'labtech.cache'
BC = f'{CA}:BaseCache'
PC = f'{CA}:PickleCache'
NC = f'{CA}:NullCache'

# ---- abstract file system of ONE storage root (trusted model; every primitive's contract is an assumption)
R.scope.update({'Key': 2, 'FName': 2, 'FId': 4})
R.func('fid', ['Key', 'FName'], 'FId')            # the file <key>/<filename>
R.func('fid_key', ['FId'], 'Key')
R.func('fid_name', ['FId'], 'FName')
R.func('META_NAME', [], 'FName')
R.func('DATA_NAME', [], 'FName')
R.axiom("META_NAME() != DATA_NAME()", name='metadata.json and data.pickle are different file names')
R.axiom("forall('Key','FName', lambda k, n: (fid_key(fid(k, n)) == k) and (fid_name(fid(k, n)) == n))", name='A-fs: a file is identified by its key directory and name')
R.globals['DIRS'] = 'Set[Key]'                  # GHOST: key directories that exist   (looks_cached(k)  <=>  k in DIRS)
R.globals['FGOOD'] = 'Map[FId,Content]'         # GHOST: completely written files and their content
R.globals['FBAD'] = 'Set[FId]'                  # GHOST: files that exist but are empty/partial/truncated
R.func('json_of', ['Doc'], 'Content')
R.func('pickle_of', ['Val'], 'Content')
# round trips, stated through inverse functions and instantiated at every dump (no quantifier over documents):
#   A-json:   json.load reads back json_inv(content), and json_inv(json_of(d)) == d for every document that was dumped
#   A-pickle: pickle.load reads back pickle_inv(content), and pickle_inv(pickle_of(v)) == v for every value that was dumped
R.func('json_inv', ['Content'], 'Doc')
R.func('pickle_inv', ['Content'], 'Val')

R.json_record('Doc', {'labtech_version': 'Str', 'cache': 'Str', 'cache_key': 'Key', 'task': 'PV',
                      'start_timestamp': 'Opt[Str]', 'duration_seconds': 'Opt[Flt]'})

R.record('Handle', immutable={'hfid': 'FId', 'hwrite': 'Bool'}, mutable={'pending': 'Opt[Content]'})
R.func('Handle.hfid', ['Handle'], 'FId')
R.func('Handle.hwrite', ['Handle'], 'Bool')
R.macro('is_write', ['m'], "(m == 'w') or (m == 'wb')")
R.macro('FILES_SAME_EXCEPT', ['key'], "forall('FId', lambda f: implies(fid_key(f) != key, ((f in FGOOD) == (f in old(FGOOD))) and implies(f in FGOOD, FGOOD[f] == old(FGOOD)[f]) and ((f in FBAD) == (f in old(FBAD)))))")
R.macro('FILES_SAME', [], "forall('FId', lambda f: ((f in FGOOD) == (f in old(FGOOD))) and implies(f in FGOOD, FGOOD[f] == old(FGOOD)[f]) and ((f in FBAD) == (f in old(FBAD))))")
R.macro('DIRS_SAME_EXCEPT', ['key'], "forall('Key', lambda k: implies(k != key, (k in DIRS) == (k in old(DIRS))))")

FSFRAME = ['@DIRS', '@FGOOD', '@FBAD']
R.contract('trusted:Storage.exists', trusted=True, self_type='Storage', params={'key': 'Key'}, returns='Bool',
    ensures=["result == (key in DIRS)"], raises={'StorageError': []}, frame=[])
R.alias('Storage', 'exists', 'trusted:Storage.exists')
R.contract('trusted:Storage.file_handle', trusted=True, self_type='Storage', params={'key': 'Key', 'filename': 'FName', 'mode': 'Str'}, returns='Handle',
    defaults={'mode': 'r'},
    ensures=["DIRS == sadd(old(DIRS), key)", "result.hfid == fid(key, filename)", "result.hwrite == is_write(mode)", "isnone(result.pending)",
             "FILES_SAME_EXCEPT(key)",
             "forall('FId', lambda f: implies((fid_key(f) == key) and (f != fid(key, filename)), ((f in FGOOD) == (f in old(FGOOD))) and implies(f in FGOOD, FGOOD[f] == old(FGOOD)[f]) and ((f in FBAD) == (f in old(FBAD)))))",
             "implies(is_write(mode), (fid(key, filename) not in FGOOD) and (fid(key, filename) in FBAD))",
             "implies(not is_write(mode), ((fid(key, filename) in FGOOD) or (fid(key, filename) in FBAD)) and ((fid(key, filename) in FGOOD) == (fid(key, filename) in old(FGOOD))) and implies(fid(key, filename) in FGOOD, FGOOD[fid(key, filename)] == old(FGOOD)[fid(key, filename)]) and ((fid(key, filename) in FBAD) == (fid(key, filename) in old(FBAD))))"],
    raises={'OSError': ["DIRS_SAME_EXCEPT(key)", "implies(key in old(DIRS), key in DIRS)", "FILES_SAME()"],
            'FileNotFoundError': ["not is_write(mode)", "DIRS == sadd(old(DIRS), key)", "FILES_SAME()", "(fid(key, filename) not in FGOOD) and (fid(key, filename) not in FBAD)"],
            'StorageError': ["DIRS == old(DIRS)", "FILES_SAME()"]},
    frame=FSFRAME + ['Handle.pending'],
    note='Storage.file_handle: creates the key directory (even for reads), then opens; opening for writing truncates')
R.alias('Storage', 'file_handle', 'trusted:Storage.file_handle')
R.contract('trusted:Storage.delete', trusted=True, self_type='Storage', params={'key': 'Key'},
    ensures=["DIRS == sdel(old(DIRS), key)", "FILES_SAME_EXCEPT(key)", "forall('FId', lambda f: implies(fid_key(f) == key, (f not in FGOOD) and (f not in FBAD)))"],
    raises={'StorageError': ["DIRS == old(DIRS)", "FILES_SAME()"], 'OSError': ["DIRS_SAME_EXCEPT(key)", "FILES_SAME_EXCEPT(key)"]},
    frame=FSFRAME)
R.alias('Storage', 'delete', 'trusted:Storage.delete')
R.contract('trusted:Storage.find_keys', trusted=True, self_type='Storage', params={}, returns='List[Key]',
    ensures=["forall('Key', lambda k: (k in result) == (k in DIRS))"], raises={'OSError': []}, frame=[])
R.alias('Storage', 'find_keys', 'trusted:Storage.find_keys')

R.contract('trusted:json.dump', trusted=True, params={'obj': 'Doc', 'fp': 'Handle'}, varargs=True, ignored_kwargs=('indent',),
    ensures=["forall('Handle', lambda h: h.pending == (some(json_of(obj)) if h == fp else old(h.pending)))", "json_inv(json_of(obj)) == obj"],
    raises={'OSError': ["forall('Handle', lambda h: h.pending == old(h.pending))"], 'TypeError': ["forall('Handle', lambda h: h.pending == old(h.pending))"]},
    frame=['Handle.pending'], note='json.dump writes json(obj); a failure part-way leaves the file incomplete')
R.contract('trusted:pickle.dump', trusted=True, params={'obj': 'Val', 'file': 'Handle'}, varargs=True, ignored_kwargs=('protocol',),
    ensures=["forall('Handle', lambda h: h.pending == (some(pickle_of(obj)) if h == file else old(h.pending)))", "pickle_inv(pickle_of(obj)) == obj"],
    raises={'Exception': ["forall('Handle', lambda h: h.pending == old(h.pending))"]},
    frame=['Handle.pending'], note='pickle.dump may raise part-way (unpicklable object at depth, I/O error)')
R.contract('trusted:json.load', trusted=True, params={'fp': 'Handle'}, returns='Doc',
    ensures=["(fp.hfid in FGOOD) and (result == json_inv(FGOOD[fp.hfid]))"],
    raises={'Exception': []}, frame=[], note='raises on a missing/partial/ill-formed file')
R.contract('trusted:pickle.load', trusted=True, params={'file': 'Handle'}, returns='Val',
    ensures=["(file.hfid in FGOOD) and (result == pickle_inv(FGOOD[file.hfid]))"],
    raises={'Exception': []}, frame=[], note='raises on a missing/partial/ill-formed file')
R.contract('trusted:Handle.close', trusted=True, self_type='Handle', params={},
    ensures=["implies(self.hwrite and (not isnone(self.pending)), (self.hfid in FGOOD) and (FGOOD[self.hfid] == unopt(self.pending)) and (self.hfid not in FBAD))",
             "implies(not (self.hwrite and (not isnone(self.pending))), ((self.hfid in FGOOD) == (self.hfid in old(FGOOD))) and implies(self.hfid in FGOOD, FGOOD[self.hfid] == old(FGOOD)[self.hfid]) and ((self.hfid in FBAD) == (self.hfid in old(FBAD))))",
             "forall('FId', lambda f: implies(f != self.hfid, ((f in FGOOD) == (f in old(FGOOD))) and implies(f in FGOOD, FGOOD[f] == old(FGOOD)[f]) and ((f in FBAD) == (f in old(FBAD)))))"],
    raises={'OSError': ["FILES_SAME()"]},
    frame=['@FGOOD', '@FBAD'], note='closing a file opened for writing commits what was written; a failing close leaves it incomplete')
R.contract('trusted:Handle.close_after_exception', trusted=True, self_type='Handle', params={}, ensures=["FILES_SAME()"], frame=['@FGOOD', '@FBAD'])
R.with_exit['Handle'] = ('trusted:Handle.close', 'trusted:Handle.close_after_exception')
R.file_sorts = ('Handle',)

# ---- metadata document written by save
R.func('ser_task_pv', ['Inst'], 'PV')           # SPEC: the serialised form of a task object (defined and analysed in the C07/C09 cone)
R.func('ckey', ['Task'], 'Key')                 # task.cache_key (computed once at construction)
R.func('cache_cls_name', ['Cache'], 'Str')
R.func('key_prefix', ['Cache'], 'Str')
R.func('LABTECH_VERSION', [], 'Str')
R.const_exprs['labtech_version'] = 'LABTECH_VERSION()'
R.func('isoformat', ['Time'], 'Str')
R.func('total_seconds', ['Dur'], 'Flt')
R.func('fromisoformat', ['Str'], 'Time')
R.func('timedelta_of', ['Flt'], 'Dur')
R.axiom("forall('Time', lambda t: fromisoformat(isoformat(t)) == t)", name='A-iso: datetime.fromisoformat(d.isoformat()) == d')
R.axiom("forall('Dur', lambda d: timedelta_of(total_seconds(d)) == d)", name='A-float (machine arithmetic treated as exact; bounded native check in replay/c06.py): timedelta(seconds=td.total_seconds()) == td')
R.record('Meta', immutable={'start': 'Opt[Time]', 'duration': 'Opt[Dur]'}, ctor_kwargs=True, cls='labtech.types:ResultMeta')
R.func('Meta.start', ['Meta'], 'Opt[Time]')
R.func('Meta.duration', ['Meta'], 'Opt[Dur]')
R.axiom("forall('Meta','Meta', lambda a, b: implies((a.start == b.start) and (a.duration == b.duration), a == b))", name='ResultMeta is a frozen dataclass: equal fields, equal value')
R.records['Res'].ctor_kwargs = True
R.records['Res'].cls = 'labtech.types:TaskResult'
R.axiom("forall('Res','Res', lambda a, b: implies((a.value == b.value) and (a.meta == b.meta), a == b))", name='TaskResult is a frozen dataclass: equal fields, equal value')
R.contract('trusted:Time.isoformat', trusted=True, self_type='Time', params={}, returns='Str', pure=True, defn='isoformat(self)')
R.alias('Time', 'isoformat', 'trusted:Time.isoformat')
R.contract('trusted:Dur.total_seconds', trusted=True, self_type='Dur', params={}, returns='Flt', pure=True, defn='total_seconds(self)')
R.alias('Dur', 'total_seconds', 'trusted:Dur.total_seconds')
R.contract('trusted:datetime.fromisoformat', trusted=True, params={'s': 'Str'}, returns='Time', pure=True, defn='fromisoformat(s)')
R.contract('trusted:timedelta', trusted=True, params={'seconds': 'Flt'}, returns='Dur', pure=True, defn='timedelta_of(seconds)')
R.records['Inst'].pure.update({'cache_key': 'ckey(Inst_to_Task(self))', '__class__.__qualname__': 'qualname(type_of_Task(Inst_to_Task(self)))'})
R.func('qualname', ['Type'], 'Str')

R.macro('METADOC', ['cache', 'task', 'r'], """MkDoc(True, LABTECH_VERSION(), True, cache_cls_name(cache), True, ckey(Inst_to_Task(task)), True, ser_task_pv(task),
    True, isnone(r.meta.start), isoformat(unopt(r.meta.start)), True, isnone(r.meta.duration), total_seconds(unopt(r.meta.duration)))""")
R.macro('LOADABLE', ['cache', 'task', 'r'], """(fid(ckey(Inst_to_Task(task)), META_NAME()) in FGOOD)
    and DOC_MATCHES(json_inv(FGOOD[fid(ckey(Inst_to_Task(task)), META_NAME())]), cache, task, r)
    and (fid(ckey(Inst_to_Task(task)), DATA_NAME()) in FGOOD)
    and (pickle_inv(FGOOD[fid(ckey(Inst_to_Task(task)), DATA_NAME())]) == r.value)""")
# the stored document carries this cache, this key, this task and this result's meta (null values for absent meta)
R.macro('DOC_MATCHES', ['d', 'cache', 'task', 'r'], """Doc_has_cache(d) and (Doc_val_cache(d) == cache_cls_name(cache)) and Doc_has_cache_key(d) and (Doc_val_cache_key(d) == ckey(Inst_to_Task(task)))
    and Doc_has_task(d) and (Doc_val_task(d) == ser_task_pv(task))
    and Doc_has_start_timestamp(d) and (Doc_null_start_timestamp(d) == isnone(r.meta.start)) and implies(not isnone(r.meta.start), Doc_val_start_timestamp(d) == isoformat(unopt(r.meta.start)))
    and Doc_has_duration_seconds(d) and (Doc_null_duration_seconds(d) == isnone(r.meta.duration)) and implies(not isnone(r.meta.duration), Doc_val_duration_seconds(d) == total_seconds(unopt(r.meta.duration)))""")

R.cls('labtech.serialization:Serializer', fields={})
R.cls(BC, fields={'serializer': 'Obj[Serializer]'},
      pure={'METADATA_FILENAME': 'META_NAME()', '__class__.__qualname__': 'cache_cls_name(CACHE_OF(self))', 'KEY_PREFIX': 'key_prefix(CACHE_OF(self))'})
R.cls(PC, bases=(BC,), fields={'pickle_protocol': 'Int'}, pure={'RESULT_FILENAME': 'DATA_NAME()'})
R.func('THE_CACHE', [], 'Cache')
R.macro('CACHE_OF', ['obj'], 'THE_CACHE()')          # the cache object under verification, as a value of the Cache sort

SAVE_FRAME = [C("DIRS_SAME_EXCEPT(task.cache_key)", 'only the task\'s own key directory may appear', serves=('C08', 'C06')),
              C("FILES_SAME_EXCEPT(task.cache_key)", 'only files inside the task\'s own key directory change', serves=('C08', 'C06'))]
R.contract(f'{PC}.save_result', self_type='Obj[PickleCache]', params={'storage': 'Storage', 'task': 'Inst', 'result': 'Val'},
    fault_sites=True,
    crash_cond=[C("(task.cache_key not in DIRS) or ((fid(task.cache_key, DATA_NAME()) in FGOOD) and ((pickle_inv(FGOOD[fid(task.cache_key, DATA_NAME())]) == result) or ((fid(task.cache_key, DATA_NAME()) in old(FGOOD)) and (FGOOD[fid(task.cache_key, DATA_NAME())] == old(FGOOD)[fid(task.cache_key, DATA_NAME())]))))",
                  'KILLED HERE: the data file is complete (new or untouched old value) whenever the entry looks cached', serves=('C13',))],
    ensures=[C("(fid(task.cache_key, DATA_NAME()) in FGOOD) and (pickle_inv(FGOOD[fid(task.cache_key, DATA_NAME())]) == result)", 'the pickled value is completely written (what a later load reads back is this value)', serves=('C06',)),
             C("forall('FId', lambda f: implies(f != fid(task.cache_key, DATA_NAME()), ((f in FGOOD) == (f in old(FGOOD))) and implies(f in FGOOD, FGOOD[f] == old(FGOOD)[f]) and ((f in FBAD) == (f in old(FBAD)))))", 'no other file changes'),
             C("DIRS == sadd(old(DIRS), task.cache_key)", 'the key directory exists')],
    raises={'BaseException': [C("forall('FId', lambda f: implies(f != fid(task.cache_key, DATA_NAME()), ((f in FGOOD) == (f in old(FGOOD))) and implies(f in FGOOD, FGOOD[f] == old(FGOOD)[f]) and ((f in FBAD) == (f in old(FBAD)))))", 'no other file changes'),
                              C("DIRS_SAME_EXCEPT(task.cache_key) and implies(task.cache_key in old(DIRS), task.cache_key in DIRS)", 'directories'),
                              C("(fid(task.cache_key, DATA_NAME()) not in FGOOD) or (pickle_inv(FGOOD[fid(task.cache_key, DATA_NAME())]) == result) or ((fid(task.cache_key, DATA_NAME()) in old(FGOOD)) and (FGOOD[fid(task.cache_key, DATA_NAME())] == old(FGOOD)[fid(task.cache_key, DATA_NAME())]))",
                                'the data file is the new value, the untouched old one, or not a complete file')]},
    frame=FSFRAME + ['Handle.pending'])
R.implements(f'{BC}.save_result', f'{PC}.save_result', self_type='Obj[BaseCache]', abstract=True, frame=FSFRAME + ['Handle.pending'])

R.macro('ENTRY_COMPLETE', ['key'], "(fid(key, META_NAME()) in FGOOD) and (fid(key, DATA_NAME()) in FGOOD)")
R.macro('ENTRY_UNCHANGED', ['key'], "(fid(key, META_NAME()) in old(FGOOD)) and (fid(key, DATA_NAME()) in old(FGOOD)) and (fid(key, META_NAME()) in FGOOD) and (fid(key, DATA_NAME()) in FGOOD) and (FGOOD[fid(key, META_NAME())] == old(FGOOD)[fid(key, META_NAME())]) and (FGOOD[fid(key, DATA_NAME())] == old(FGOOD)[fid(key, DATA_NAME())])")
R.contract(f'{BC}.save', self_type='Obj[BaseCache]', params={'storage': 'Storage', 'task': 'Inst', 'task_result': 'Res'},
    fault_sites=True,
    requires=[C("implies(task.cache_key in DIRS, ENTRY_COMPLETE(task.cache_key))", 'A-cache0: an entry that exists before the save is complete (no poisoned entry to begin with)')],
    crash_cond=[C("(task.cache_key not in DIRS) or LOADABLE(CACHE_OF(self), task, task_result) or ENTRY_UNCHANGED(task.cache_key)",
                  'KILLED HERE: the entry does not look cached, or loads the new value completely, or is the untouched old entry', serves=('C13',))],
    ensures=[C("LOADABLE(CACHE_OF(self), task, task_result)", 'after a successful save the entry is loadable: metadata and value completely written under the task\'s own key', serves=('C06', 'C12')),
             C("task.cache_key in DIRS", 'the task is reported as cached', serves=('C06',))] + SAVE_FRAME,
    raises={'BaseException': [C("(task.cache_key not in DIRS) or LOADABLE(CACHE_OF(self), task, task_result) or ENTRY_UNCHANGED(task.cache_key)",
                                'FAILED SAVE: the entry does not look cached, or is fully loadable with the new value, or is the untouched old entry', serves=('C12',))] + SAVE_FRAME},
    frame=FSFRAME + ['Handle.pending'])

# ---- load path
R.contract(f'{PC}.load_result', self_type='Obj[PickleCache]', params={'storage': 'Storage', 'task': 'Inst'}, returns='Val',
    ensures=[C("(fid(task.cache_key, DATA_NAME()) in FGOOD) and (result == pickle_inv(FGOOD[fid(task.cache_key, DATA_NAME())]))", 'reads back the value stored under the task\'s own key', serves=('C06',)),
             C("FILES_SAME() and DIRS_SAME_EXCEPT(task.cache_key)", 'a load changes no file', serves=('C08',))],
    raises={'Exception': [C("FILES_SAME() and DIRS_SAME_EXCEPT(task.cache_key)", 'a failed load changes no file', serves=('C08',))]},
    frame=FSFRAME + ['Handle.pending'])
R.implements(f'{BC}.load_result', f'{PC}.load_result', self_type='Obj[BaseCache]', abstract=True, frame=FSFRAME + ['Handle.pending'])
R.func('qualname_prefix_ok', ['Cache', 'Type', 'Key'], 'Bool')      # key.startswith(KEY_PREFIX + task_type.__qualname__)
R.contract(f'{BC}.load_metadata', self_type='Obj[BaseCache]', params={'storage': 'Storage', 'task_type': 'Type', 'key': 'Key'}, returns='Doc',
    opaque_tests={"key.startswith(f'{self.KEY_PREFIX}{task_type.__qualname__}')": 'qualname_prefix_ok(CACHE_OF(self), task_type, key)'},
    ensures=[C("(fid(key, META_NAME()) in FGOOD) and (result == json_inv(FGOOD[fid(key, META_NAME())]))", 'the document stored under that key', serves=('C06', 'C09')),
             C("Doc_has_cache(result) and (Doc_val_cache(result) == cache_cls_name(CACHE_OF(self)))", 'written by this cache format', serves=('C09',)),
             C("qualname_prefix_ok(CACHE_OF(self), task_type, key)", 'the key carries this format\'s prefix and the type\'s name', serves=('C09',)),
             C("FILES_SAME() and DIRS_SAME_EXCEPT(key) and implies(key in old(DIRS), key in DIRS)", 'a load changes no file and removes no entry', serves=('C08', 'C09'))],
    raises={'Exception': [C("FILES_SAME() and DIRS_SAME_EXCEPT(key) and implies(key in old(DIRS), key in DIRS)", 'a failed load changes no file and removes no entry', serves=('C08', 'C09'))]},
    frame=FSFRAME + ['Handle.pending'])
R.contract(f'{BC}.build_result_meta', self_type='Obj[BaseCache]', params={'metadata': 'Doc'}, returns='Meta',
    ensures=[C("implies(Doc_has_start_timestamp(metadata), (not Doc_null_start_timestamp(metadata)) and (result.start == some(fromisoformat(Doc_val_start_timestamp(metadata)))))", 'start read back', serves=('C06',)),
             C("implies(not Doc_has_start_timestamp(metadata), isnone(result.start))", 'no start recorded'),
             C("implies(Doc_has_duration_seconds(metadata), (not Doc_null_duration_seconds(metadata)) and (result.duration == some(timedelta_of(Doc_val_duration_seconds(metadata)))))", 'duration read back', serves=('C06',)),
             C("implies(not Doc_has_duration_seconds(metadata), isnone(result.duration))", 'no duration recorded')],
    raises={'Exception': []}, frame=[],
    note='a stored null timestamp/duration (a ResultMeta without start/duration, which run_or_load_task never produces) makes the stdlib constructors raise; outside C06\'s statement')
R.contract(f'{BC}.load_result_with_meta', self_type='Obj[BaseCache]', params={'storage': 'Storage', 'task': 'Inst'}, returns='Res',
    ensures=[C("forall('Res', lambda r: implies(old(LOADABLE(CACHE_OF(self), task, r)), (result.value == r.value) and (result.meta == r.meta)))",
               'CACHE HIT: whatever save stored for this very task is what is returned, value and metadata', serves=('C06',)),
             C("FILES_SAME() and DIRS_SAME_EXCEPT(task.cache_key)", 'a load changes no file', serves=('C08',))],
    raises={'Exception': [C("FILES_SAME() and DIRS_SAME_EXCEPT(task.cache_key)", 'a failed load changes no file', serves=('C08',))]},
    frame=FSFRAME + ['Handle.pending'])
R.contract(f'{BC}.is_cached', self_type='Obj[BaseCache]', params={'storage': 'Storage', 'task': 'Inst'}, returns='Bool',
    ensures=[C("result == (task.cache_key in DIRS)", 'cached iff the key directory exists (no memo, no negative cache: the answer is the storage\'s current state)', serves=('C06', 'C08', 'C03'))], raises={'StorageError': []}, frame=[])
R.contract(f'{BC}.delete', self_type='Obj[BaseCache]', params={'storage': 'Storage', 'task': 'Inst'},
    ensures=[C("DIRS == sdel(old(DIRS), task.cache_key)", 'exactly the task\'s own entry disappears', serves=('C08',)),
             C("FILES_SAME_EXCEPT(task.cache_key)", 'no other entry\'s file changes', serves=('C08',))],
    raises={'StorageError': [], 'OSError': []}, frame=FSFRAME)
# NullCache: inert
for meth, params, ret, extra in [('is_cached', {'storage': 'Storage', 'task': 'Inst'}, 'Bool', ["result == False"]),
                                 ('save', {'storage': 'Storage', 'task': 'Inst', 'result': 'Res'}, 'None', []),
                                 ('delete', {'storage': 'Storage', 'task': 'Inst'}, 'None', [])]:
    R.contract(f'{NC}.{meth}', self_type='Obj[NullCache]', params=params, returns=ret,
        ensures=[C(e, '', serves=('C08',)) for e in extra] + [C("(DIRS == old(DIRS)) and FILES_SAME()", 'a NullCache never touches the storage', serves=('C08',))], frame=[])
R.cls(NC, fields={})

# ---- the abstract per-task cache (task._lt.cache): behaves like BaseCache for cacheable types, is inert for cache=None types
CAK = 'labtech.types:Cache'
R.cls(CAK, fields={})
R.records['Inst'].obj_attrs['_lt.cache'] = 'Cache'
R.record('Type', obj_attrs={'_lt.cache': 'Cache'}, pure={'__qualname__': 'qualname(self)'})
R.macro('CACHEABLE', ['task'], 'cacheable(type_of_Task(Inst_to_Task(task)))')
R.contract(f'{CAK}.is_cached', abstract=True, self_type='Obj[Cache]', params={'storage': 'Storage', 'task': 'Inst'}, returns='Bool',
    ensures=[C("result == (CACHEABLE(task) and (task.cache_key in DIRS))", 'cached iff the type caches and its key directory exists', serves=('C06', 'C08'))],
    raises={'StorageError': []}, frame=[])
R.contract(f'{CAK}.save', abstract=True, self_type='Obj[Cache]', params={'storage': 'Storage', 'task': 'Inst', 'result': 'Res'},
    ensures=[C("implies(CACHEABLE(task), LOADABLE(THE_CACHE(), task, result) and (task.cache_key in DIRS) and DIRS_SAME_EXCEPT(task.cache_key) and FILES_SAME_EXCEPT(task.cache_key))", 'caching types: the entry is written under the task\'s own key, nothing else changes', serves=('C06', 'C08')),
             C("implies(not CACHEABLE(task), (DIRS == old(DIRS)) and FILES_SAME())", 'cache=None types never persist anything', serves=('C08',))],
    raises={'BaseException': [C("DIRS_SAME_EXCEPT(task.cache_key) and FILES_SAME_EXCEPT(task.cache_key)", 'a failed save touches only the task\'s own entry', serves=('C08',)),
                              C("implies(not CACHEABLE(task), (DIRS == old(DIRS)) and FILES_SAME())", 'cache=None types never persist anything', serves=('C08',))]},
    frame=FSFRAME + ['Handle.pending'])
R.contract(f'{CAK}.load_result_with_meta', abstract=True, self_type='Obj[Cache]', params={'storage': 'Storage', 'task': 'Inst'}, returns='Res',
    ensures=[C("forall('Res', lambda r: implies(old(LOADABLE(THE_CACHE(), task, r)), (result.value == r.value) and (result.meta == r.meta)))", 'CACHE HIT', serves=('C06',)),
             C("FILES_SAME() and DIRS_SAME_EXCEPT(task.cache_key)", 'a load changes no file', serves=('C08',))],
    raises={'Exception': [C("FILES_SAME() and DIRS_SAME_EXCEPT(task.cache_key)", 'a failed load changes no file', serves=('C08',))]},
    frame=FSFRAME + ['Handle.pending'])
R.contract(f'{CAK}.delete', abstract=True, self_type='Obj[Cache]', params={'storage': 'Storage', 'task': 'Inst'},
    ensures=[C("implies(CACHEABLE(task), (DIRS == sdel(old(DIRS), task.cache_key)) and FILES_SAME_EXCEPT(task.cache_key))", 'exactly the task\'s own entry disappears', serves=('C08',)),
             C("implies(not CACHEABLE(task), (DIRS == old(DIRS)) and FILES_SAME())", 'cache=None: nothing to delete', serves=('C08',))],
    raises={'StorageError': [], 'OSError': []}, frame=FSFRAME)

# ---- run_or_load_task (runners/base.py)
R.func('time_diff', ['Time', 'Time'], 'Dur')
R.record('CurProc', mutable={'name': 'Str'})
R.contract('trusted:multiprocessing.current_process', trusted=True, params={}, returns='CurProc', pure=True, defn='THE_PROCESS()')
R.func('THE_PROCESS', [], 'CurProc')
R.contract('trusted:datetime.now', trusted=True, params={}, returns='Time', frame=[])
R.transparent_cms |= {'optional_mlflow'}
R.globals['RUN_CALLS'] = 'Int'      # GHOST: how many times user run() was entered
R.contract('trusted:<task.run>', trusted=True, self_type='Inst', params={}, returns='Val',
    ensures=["RUN_CALLS == old(RUN_CALLS) + 1"], raises={'BaseException': ["RUN_CALLS == old(RUN_CALLS) + 1"]}, frame=['@RUN_CALLS'],
    note='user code (A-run)')
R.alias('Inst', 'run', 'trusted:<task.run>')
R.alias('Inst', 'set_context', 'labtech.tasks:_task_set_context')
R.contract('labtech.tasks:_task_set_context', self_type='Inst', params={'context': 'Ctx'},
    ensures=["forall('Inst', lambda i: i.context == (some(context) if i == self else old(i.context)))"], frame=['Inst.context'])

rolt = R.contracts['labtech.runners.base:run_or_load_task']
rolt.requires = []
rolt.ensures = rolt.ensures + [
    C("implies(use_cache, (RUN_CALLS == old(RUN_CALLS)) and FILES_SAME() and DIRS_SAME_EXCEPT(task.cache_key))", 'LOAD: run() is not called and nothing is written', serves=('C02', 'C03', 'C06', 'C08')),
    C("implies(use_cache, forall('Res', lambda r: implies(old(LOADABLE(THE_CACHE(), task, r)), (result.value == r.value) and (result.meta == r.meta))))", 'LOAD returns exactly what was stored for this task', serves=('C06',)),
    C("implies(not use_cache, RUN_CALLS == old(RUN_CALLS) + 1)", 'EXECUTE: run() is called exactly once', serves=('C03',)),
    C("implies((not use_cache) and CACHEABLE(task), LOADABLE(THE_CACHE(), task, result) and (task.cache_key in DIRS))", 'EXECUTE: the returned result is what was saved under the task\'s own key', serves=('C06',)),
    C("DIRS_SAME_EXCEPT(task.cache_key) and FILES_SAME_EXCEPT(task.cache_key)", 'only the task\'s own entry may change', serves=('C08',)),
    C("THE_PROCESS().name == old(THE_PROCESS().name)", 'the process name is restored', serves=('C14',)),
]
rolt.raises = {'BaseException': [C("implies(use_cache, RUN_CALLS == old(RUN_CALLS))", 'LOAD that fails: run() is still not entered (a task planned as a load has no dependencies scheduled in this call)', serves=('C02', 'C03')),
                                 C("DIRS_SAME_EXCEPT(task.cache_key) and FILES_SAME_EXCEPT(task.cache_key)", 'only the task\'s own entry may change', serves=('C08',)),
                                 C("THE_PROCESS().name == old(THE_PROCESS().name)", 'the process name is restored', serves=('C14',))]}
rolt.frame = ['Inst.context', '@RUN_CALLS', 'CurProc.name', 'Handle.pending'] + FSFRAME
rolt.at_call = {'run': [C("(task.context == some(filtered_context))", 'the context handed by the runner is set on the task before run() is called', serves=('C16',))]}
rolt.cand_locals = ('task',)

# ---- Lab cache operations (labtech/lab.py)
LABK = 'labtech.lab:Lab'
TCK = 'labtech.lab:TaskCoordinator'
R.contract(f'{LABK}.is_cached', self_type='Obj[Lab]', params={'task': 'Inst'}, returns='Bool', pure=True,
    ensures=[C("result == (CACHEABLE(task) and (task.cache_key in DIRS))", 'is_cached reports exactly the presence of the task\'s own entry', serves=('C06', 'C08', 'C03')),
             C("(DIRS == old(DIRS)) and FILES_SAME()", 'a query changes nothing', serves=('C08',))],
    raises={'StorageError': []}, frame=[])
R.contract(f'{LABK}.uncache_tasks', self_type='Obj[Lab]', params={'tasks': 'List[Inst]'},
    ensures=[C("forall('Key', lambda k: (k in DIRS) == ((k in old(DIRS)) and not exists('Inst', lambda i: (i in tasks) and CACHEABLE(i) and (i.cache_key == k))))",
               'exactly the named cacheable tasks\' entries are removed', serves=('C08',)),
             C("forall('FId', lambda f: implies(not exists('Inst', lambda i: (i in tasks) and CACHEABLE(i) and (i.cache_key == fid_key(f))), ((f in FGOOD) == (f in old(FGOOD))) and implies(f in FGOOD, FGOOD[f] == old(FGOOD)[f]) and ((f in FBAD) == (f in old(FBAD)))))",
               'no other entry\'s file changes', serves=('C08',))],
    raises={'StorageError': [], 'OSError': []}, frame=FSFRAME,
    candidates=["forall('Key', lambda k: (k in DIRS) == ((k in old(DIRS)) and not exists('Inst', lambda i: (i in __done__) and CACHEABLE(i) and (i.cache_key == k))))",
                "forall('FId', lambda f: implies(not exists('Inst', lambda i: (i in __done__) and CACHEABLE(i) and (i.cache_key == fid_key(f))), ((f in FGOOD) == (f in old(FGOOD))) and implies(f in FGOOD, FGOOD[f] == old(FGOOD)[f]) and ((f in FBAD) == (f in old(FBAD)))))"])
R.classes[LABK].fields['_storage'] = 'Storage'
# the coordinator's cache test: its body is verified here; callers use the ghost name ucache(task) for the value it returns
# while the task has not been executed (A-cache: nobody else writes the task's key meanwhile)
R.contract(f'{TCK}.use_cache:body', self_type='Obj[TaskCoordinator]', params={'task': 'Inst'}, returns='Bool',
    ensures=[C("result == ((not self.bust_cache) and CACHEABLE(task) and (task.cache_key in DIRS))", 'bust_cache makes every cache test false; otherwise the test is is_cached', serves=('C08', 'C03'))],
    raises={'StorageError': []}, frame=[])

# ---- reconstruction of cached tasks (C09)
R.contract(f'{BC}.load_task', self_type='Obj[BaseCache]', params={'storage': 'Storage', 'task_type': 'Type', 'key': 'Key'}, returns='PV',
    opaque_tests={'isinstance(task, task_type)': 'is_PTask(task) and (type_of_Task(Inst_to_Task(inst(task))) == task_type)'},
    ensures=[C("is_PTask(result) and (type_of_Task(Inst_to_Task(inst(result))) == task_type)", 'only tasks of the requested type are returned (a type whose name merely starts like another\'s is rejected here)', serves=('C09',)),
             C("(fid(key, META_NAME()) in FGOOD) and (result == PTask(deser_task_pv(Doc_val_task(json_inv(FGOOD[fid(key, META_NAME())])))))", 'the task is rebuilt from the document stored under that key', serves=('C09',)),
             C("Doc_val_cache(json_inv(FGOOD[fid(key, META_NAME())])) == cache_cls_name(CACHE_OF(self))", 'entries of other cache formats contribute nothing', serves=('C09',)),
             C("FILES_SAME() and DIRS_SAME_EXCEPT(key) and implies(key in old(DIRS), key in DIRS)", 'listing changes no file and removes no entry', serves=('C08', 'C09'))],
    raises={'Exception': [C("FILES_SAME() and DIRS_SAME_EXCEPT(key) and implies(key in old(DIRS), key in DIRS)", 'a failed load changes no file and removes no entry', serves=('C08', 'C09'))]},
    frame=FSFRAME + ['Handle.pending'])
R.classes[BC].fields['serializer'] = 'Obj[Serializer]'

# ---- Lab.cached_tasks (lab.py): which stored entries are listed, and that each key contributes at most once (C09)
R.func('accepts', ['Type', 'Key'], 'Bool')        # GHOST: the cache of this task type recognises the entry stored under this key as one of its tasks
R.macro('STORED_TASK', ['key'], 'PTask(deser_task_pv(Doc_val_task(json_inv(FGOOD[fid(key, META_NAME())]))))')
R.contract(f'{CAK}.load_task', abstract=True, self_type='Obj[Cache]', params={'storage': 'Storage', 'task_type': 'Type', 'key': 'Key'}, returns='PV',
    ensures=[C("accepts(task_type, key)", 'GHOST definition: a normal return is what "the type accepts the key" means'),
             C("is_PTask(result) and (type_of_Task(Inst_to_Task(inst(result))) == task_type)", 'a task of the requested type', serves=('C09',)),
             C("result == STORED_TASK(key)", 'rebuilt from the document stored under that key', serves=('C09',)),
             C("FILES_SAME() and DIRS_SAME_EXCEPT(key) and implies(key in old(DIRS), key in DIRS)", 'a load changes no file and removes no entry', serves=('C08', 'C09'))],
    raises={'TaskNotFound': [C("not accepts(task_type, key)", 'GHOST definition: TaskNotFound is what "does not accept" means'),
                             C("FILES_SAME() and DIRS_SAME_EXCEPT(key) and implies(key in old(DIRS), key in DIRS)", 'a load changes no file and removes no entry', serves=('C08', 'C09'))],
            'Exception': [C("FILES_SAME() and DIRS_SAME_EXCEPT(key) and implies(key in old(DIRS), key in DIRS)", 'a failed load changes no file and removes no entry', serves=('C08', 'C09'))]},
    frame=FSFRAME + ['Handle.pending'])
R.alias('Cache', 'load_task', f'{CAK}.load_task')
R.contract('labtech.lab:check_task_types', params={'task_types': 'List[Type]'}, trusted=True, raises={}, frame=[],
    note='argument validation; the property quantifies over genuine task types')
R.contract(f'{LABK}.cached_tasks', self_type='Obj[Lab]', params={'task_types': 'List[Type]'}, returns='List[PV]',
    ensures=[C("forall('PV', lambda v: implies(v in result, exists('Key','Type', lambda k, ty: (k in DIRS) and (ty in task_types) and accepts(ty, k) and (v == STORED_TASK(k)) "
               "and is_PTask(v) and (type_of_Task(Inst_to_Task(inst(v))) == ty))))",
               'SOUND: every listed task is the task stored under an existing key that one of the given types accepts, and has that type', serves=('C09',)),
             C("forall('Key','Type', lambda k, ty: implies((k in DIRS) and (ty in task_types) and accepts(ty, k), STORED_TASK(k) in result))",
               'COMPLETE: every stored entry that one of the given types accepts is listed', serves=('C09',)),
             C("FILES_SAME() and (DIRS == old(DIRS))", 'listing changes nothing', serves=('C08', 'C09'))],
    raises={'Exception': [C("FILES_SAME() and (DIRS == old(DIRS))", 'a failed listing changes nothing', serves=('C08', 'C09'))]},
    frame=FSFRAME + ['Handle.pending'], cand_locals=('tasks', 'keys', 'key'),
    candidates=["forall('Key', lambda k: (k in keys) == (k in DIRS))",
                "FILES_SAME() and (DIRS == old(DIRS))",
                "forall('PV', lambda v: implies(v in tasks, exists('Key','Type', lambda k, ty: (k in DIRS) and (ty in task_types) and accepts(ty, k) and (v == STORED_TASK(k)) and is_PTask(v) and (type_of_Task(Inst_to_Task(inst(v))) == ty))))",
                "forall('Key','Type', lambda k, ty: implies((k in __done__) and (ty in task_types) and accepts(ty, k), STORED_TASK(k) in tasks))",
                "forall('Key','Type', lambda k, ty: implies((k in __done_outer__) and (ty in task_types) and accepts(ty, k), STORED_TASK(k) in tasks))",
                "forall('Type', lambda ty: implies(ty in __done__, not accepts(ty, key)))",
                ])
