# Property-level lemmas over the contracts alone (no code).  They also measure whether the contracts are strong enough.
R.lemma('C11/no-stuck',
    vars={'state': 'Obj[TaskState]', 'ready': 'Set[Task]'},
    hyps=[C('INV(state)'),
          C("forall('Task', lambda t: implies((t in P(state)) and empty(PD(state)[t]) and (t not in ready), (not isnone(maxpar(ty(t)))) and (card(ACT(state)[ty(t)]) + card(OFTYPE(ready, ty(t))) >= unopt(maxpar(ty(t))))))",
            'post of get_ready_tasks: maximal'),
          C("subset(state.STARTED, state.FIN)", 'nothing is in flight'),
          C("not empty(P(state))", 'something is still pending'),
          C("forall('Task','Task', lambda t, d: implies(d in DD(state)[t], d in deps(t)))", 'edges are dependencies'),
          C("exists('Task', lambda m: (m in P(state)) and forall('Task', lambda t: implies(t in P(state), rank(m) <= rank(t))))",
            'A-wo: a non-empty set of naturals has a least element (instance: the ranks of the pending tasks)'),
          ],
    goal="not empty(ready)",
    serves=('C11',),
    note='the coordinator cannot rest with pending tasks, nothing in flight and nothing ready')
R.lemma('C11/exit',
    vars={'state': 'Obj[TaskState]', 'runner': 'Obj[Runner]'},
    hyps=[C('INV(state)'),
          C("forall('Task', lambda t: (t in INFLIGHT(runner)) == ((t in state.STARTED) and (t not in state.FIN)))", 'L2 link'),
          C("state.FIN == state.ALL", 'every planned task has finished')],
    goal="empty(P(state)) and empty(INFLIGHT(runner))",
    serves=('C11',), note='when everything has finished the loop condition is false')
R.lemma('C11/measure',
    vars={'ALL': 'Set[Task]', 'FIN': 'Set[Task]', 'task': 'Task', 'UNFIN': 'Set[Task]'},
    hyps=[C("subset(FIN, ALL)"), C("task in ALL"), C("task not in FIN"), C("UNFIN == ALL - FIN", 'definition of the unfinished set')],
    goal="((ALL - sadd(FIN, task)) == sdel(UNFIN, task)) and (card(sdel(UNFIN, task)) < card(UNFIN))",
    serves=('C11',), note='each yielded completion strictly decreases the number of unfinished planned tasks')

# ---- structural induction over value trees (C15 / C07 / C09).  For a statement P over PV with list/entry analogues PL, PE
# the schema emits one step lemma per datatype: the statement for a node follows from the statement for its children.
# Soundness of the schema is the induction principle for finite trees (trusted meta-theory, listed in the evidence).
def induction(name, P, PL, PE, serves, note=''):
    R.lemma(f'{name}/step-PV', vars={'v': 'PV'},
        hyps=[C(f"implies(is_PList(v), {PL.replace('$', 'litems(v)')})", 'IH list items'), C(f"implies(is_PTuple(v), {PL.replace('$', 'titems(v)')})", 'IH tuple items'),
              C(f"implies(is_PDict(v), {PE.replace('$', 'dents(v)')})", 'IH dict entries'), C(f"implies(is_PFrozen(v), {PE.replace('$', 'fents(v)')})", 'IH frozendict entries')],
        goal=P.replace('$', 'v'), serves=serves, note=note)
    R.lemma(f'{name}/step-PL', vars={'l': 'PL'},
        hyps=[C(f"implies(is_LCons(l), ({P.replace('$', 'head(l)')}) and ({PL.replace('$', 'tail(l)')}))", 'IH head and tail')],
        goal=PL.replace('$', 'l'), serves=serves, note=note)
    R.lemma(f'{name}/step-PE', vars={'e': 'PE'},
        hyps=[C(f"implies(is_ECons(e), ({P.replace('$', 'evalue(e)')}) and ({PE.replace('$', 'erest(e)')}))", 'IH value and rest')],
        goal=PE.replace('$', 'e'), serves=serves, note=note)

induction('C15/norm-immutable',
          "implies(normable($), immutable(norm($)))", "implies(normable_list($), imm_list(norm_list($)))", "implies(normable_ents($), imm_ents(norm_ents($)))",
          ('C15',), 'what construction accepts is stored in immutable form at every depth')
induction('C15/norm-keeps-tasks',
          "tasks_in(norm($)) == tasks_in($)", "tasks_in_list(norm_list($)) == tasks_in_list($)", "tasks_in_ents(norm_ents($)) == tasks_in_ents($)",
          ('C15', 'C02'), 'normalisation neither loses nor invents a dependency (so the dependency search sees exactly the tasks the user passed)')
induction('C15/norm-idempotent',
          "implies(immutable($), norm($) == $)", "implies(imm_list($), norm_list($) == $)", "implies(imm_ents($), norm_ents($) == $)",
          ('C15', 'C07'), 'normalising an already normalised value changes nothing (pickle copies and reconstructed tasks get the same parameters)')
