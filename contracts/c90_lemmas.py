# Property-level lemmas over the contracts alone (no code).  They also measure whether the contracts are strong enough.
R.lemma('C11/no-stuck',
    vars={'state': 'Obj[TaskState]', 'ready': 'Set[Task]'},
    hyps=[C('INV(state)'),
          C("forall('Task', lambda t: implies((t in P(state)) and empty(PD(state)[t]) and (t not in ready), (not isnone(maxpar(ty(t)))) and (card(ACT(state)[ty(t)]) + card(OFTYPE(ready, ty(t))) >= unopt(maxpar(ty(t))))))",
            'post of get_ready_tasks: maximal'),
          C("subset(state.STARTED, state.FIN)", 'nothing is in flight'),
          C("not empty(P(state))", 'something is still pending'),
          C("forall('Task','Task', lambda t, d: implies(d in DD(state)[t], d in deps(t)))", 'edges are dependencies'),
          C("exists('Task', lambda m: (m in P(state)) and forall('Task', lambda t: implies(t in P(state), rank(m) <= rank(t))))",
            'A-wo: a non-empty set of naturals has a least element (instance: the ranks of the pending tasks)'),
          ],
    goal="not empty(ready)",
    serves=('C11',),
    note='the coordinator cannot rest with pending tasks, nothing in flight and nothing ready')
R.lemma('C11/exit',
    vars={'state': 'Obj[TaskState]', 'runner': 'Obj[Runner]'},
    hyps=[C('INV(state)'),
          C("forall('Task', lambda t: (t in INFLIGHT(runner)) == ((t in state.STARTED) and (t not in state.FIN)))", 'L2 link'),
          C("state.FIN == state.ALL", 'every planned task has finished')],
    goal="empty(P(state)) and empty(INFLIGHT(runner))",
    serves=('C11',), note='when everything has finished the loop condition is false')
R.lemma('C11/measure',
    vars={'ALL': 'Set[Task]', 'FIN': 'Set[Task]', 'task': 'Task', 'UNFIN': 'Set[Task]'},
    hyps=[C("subset(FIN, ALL)"), C("task in ALL"), C("task not in FIN"), C("UNFIN == ALL - FIN", 'definition of the unfinished set')],
    goal="((ALL - sadd(FIN, task)) == sdel(UNFIN, task)) and (card(sdel(UNFIN, task)) < card(UNFIN))",
    serves=('C11',), note='each yielded completion strictly decreases the number of unfinished planned tasks')

# ---- structural induction over value trees (C15 / C07 / C09).  For a statement P over PV with list/entry analogues PL, PE
# the schema emits one step lemma per datatype: the statement for a node follows from the statement for its children.
# Soundness of the schema is the induction principle for finite trees (trusted meta-theory, listed in the evidence).
def induction(name, P, PL, PE, serves, note=''):
    R.lemma(f'{name}/step-PV', vars={'v': 'PV'},
        hyps=[C(f"implies(is_PList(v), {PL.replace('$', 'litems(v)')})", 'IH list items'), C(f"implies(is_PTuple(v), {PL.replace('$', 'titems(v)')})", 'IH tuple items'),
              C(f"implies(is_PDict(v), {PE.replace('$', 'dents(v)')})", 'IH dict entries'), C(f"implies(is_PFrozen(v), {PE.replace('$', 'fents(v)')})", 'IH frozendict entries')],
        goal=P.replace('$', 'v'), serves=serves, note=note)
    R.lemma(f'{name}/step-PL', vars={'l': 'PL'},
        hyps=[C(f"implies(is_LCons(l), ({P.replace('$', 'head(l)')}) and ({PL.replace('$', 'tail(l)')}))", 'IH head and tail')],
        goal=PL.replace('$', 'l'), serves=serves, note=note)
    R.lemma(f'{name}/step-PE', vars={'e': 'PE'},
        hyps=[C(f"implies(is_ECons(e), ({P.replace('$', 'evalue(e)')}) and ({PE.replace('$', 'erest(e)')}))", 'IH value and rest')],
        goal=PE.replace('$', 'e'), serves=serves, note=note)

induction('C15/norm-immutable',
          "implies(normable($), immutable(norm($)))", "implies(normable_list($), imm_list(norm_list($)))", "implies(normable_ents($), imm_ents(norm_ents($)))",
          ('C15',), 'what construction accepts is stored in immutable form at every depth')
induction('C15/norm-keeps-tasks',
          "tasks_in(norm($)) == tasks_in($)", "tasks_in_list(norm_list($)) == tasks_in_list($)", "tasks_in_ents(norm_ents($)) == tasks_in_ents($)",
          ('C15', 'C02'), 'normalisation neither loses nor invents a dependency (so the dependency search sees exactly the tasks the user passed)')
induction('C15/norm-idempotent',
          "implies(immutable($), norm($) == $)", "implies(imm_list($), norm_list($) == $)", "implies(imm_ents($), norm_ents($) == $)",
          ('C15', 'C07'), 'normalising an already normalised value changes nothing (pickle copies and reconstructed tasks get the same parameters)')

# ---- C09: deserialising a serialised value gives the value back (tasks by their reconstruction rt_inst)
R.func('rt_inst', ['Inst'], 'Inst')       # the task object that deserialize_task rebuilds from serialize_task's document
R.recfunc('rtmap', {'v': 'PV'}, 'PV', "ite(is_PTask(v), PTask(rt_inst(inst(v))), ite(is_PTuple(v), PTuple(rtmap_list(titems(v))), ite(is_PFrozen(v), PFrozen(rtmap_ents(fents(v))), v)))")
R.recfunc('rtmap_list', {'l': 'PL'}, 'PL', "ite(is_LNil(l), l, LCons(rtmap(head(l)), rtmap_list(tail(l))))")
R.recfunc('rtmap_ents', {'e': 'PE'}, 'PE', "ite(is_ENil(e), e, ECons(ekey(e), rtmap(evalue(e)), rtmap_ents(erest(e))))")
# well-formed, reserved-free immutable values: enum members carry their class's mixin; no dict parameter uses a marker key
R.recfunc('wfv', {'v': 'PV'}, 'Bool', "(is_PEnum(v) and (emix(v) == enum_mix(ecls(v)))) or is_PNone(v) or is_PBool(v) or is_PInt(v) or is_PFloat(v) or is_PStr(v) or is_PTask(v) "
          "or (is_PTuple(v) and wfv_list(titems(v))) or (is_PFrozen(v) and wfv_ents(fents(v)) and (not ents_has(fents(v), '_is_task')) and (not ents_has(fents(v), '_is_enum')))")
R.recfunc('wfv_list', {'l': 'PL'}, 'Bool', "is_LNil(l) or (wfv(head(l)) and wfv_list(tail(l)))")
R.recfunc('wfv_ents', {'e': 'PE'}, 'Bool', "is_ENil(e) or (is_PStr(ekey(e)) and wfv(evalue(e)) and wfv_ents(erest(e)))")
RT_AX = [C("forall('Inst', lambda i: marked(ser_task_pv(i), '_is_task') and (deser_task_pv(ser_task_pv(i)) == rt_inst(i)))",
           'SPEC of the task document (serialize_task/deserialize_task, decided by the bounded stand-in): it carries the _is_task marker and reconstructs to rt_inst'),
         C("forall('Cls', lambda c: fullname_cls(cls_fullname(c)) == c)", 'A-import: an enum class is importable under the module path and qualified name recorded for it')]
R.lemma('C09/round-trip/step-PV', vars={'v': 'PV'},
    hyps=RT_AX + [C("implies(is_PTuple(v), implies(wfv_list(titems(v)), norm_list(deser_list(ser_list(titems(v)))) == rtmap_list(titems(v))))", 'IH tuple items'),
                  C("(ents_has(ser_ents(fents(v)), '_is_task') == ents_has(fents(v), '_is_task')) and (ents_has(ser_ents(fents(v)), '_is_enum') == ents_has(fents(v), '_is_enum'))",
                    'two INSTANCES of THEOREM C09/keys-kept (proved by its own induction step): x := fents(v), k := each marker key'),
                  C("implies(is_PFrozen(v), implies(wfv_ents(fents(v)), norm_ents(deser_ents(ser_ents(fents(v)))) == rtmap_ents(fents(v))))", 'IH frozendict entries'),
                  C("implies(is_PFrozen(v) and wfv(v), (not marked(ser(v), '_is_task')) and (not marked(ser(v), '_is_enum')))",
                    'LEMMA C09/round-trip/frozendict-unmarked (proved separately): the serialised form of a reserved-free dict parameter carries no marker')],
    goal="implies(wfv(v), norm(deser(ser(v))) == rtmap(v))", serves=('C09',), note='constructing the task again normalises lists back to tuples and dicts to frozendicts',
    # proved by cases, each with only the hypotheses it needs (0,1 = RT axioms; 2 = IH tuple; 3 = keys-kept instances; 4 = IH frozendict)
    cases={'scalar': ('is_PNone(v) or is_PBool(v) or is_PInt(v) or is_PFloat(v) or is_PStr(v)', []), 'enum': ('is_PEnum(v)', [1]), 'task': ('is_PTask(v)', [0]),
           'tuple': ('is_PTuple(v)', [2]), 'frozendict': ('is_PFrozen(v)', [4, 5]), 'unnormalised': ('is_PList(v) or is_PDict(v) or is_POther(v)', [])})
R.lemma('C09/round-trip/frozendict-unmarked', vars={'v': 'PV'},
    hyps=[C("(ents_has(ser_ents(fents(v)), '_is_task') == ents_has(fents(v), '_is_task')) and (ents_has(ser_ents(fents(v)), '_is_enum') == ents_has(fents(v), '_is_enum'))",
            'two INSTANCES of THEOREM C09/keys-kept: x := fents(v), k := each marker key')],
    goal="implies(is_PFrozen(v) and wfv(v), (not marked(ser(v), '_is_task')) and (not marked(ser(v), '_is_enum')))", serves=('C09', 'C07'),
    note='a dict parameter without the marker keys serialises to a document without them')
R.lemma('C09/round-trip/step-PL', vars={'l': 'PL'},
    hyps=RT_AX + [C("implies(is_LCons(l), implies(wfv(head(l)), norm(deser(ser(head(l)))) == rtmap(head(l))) and implies(wfv_list(tail(l)), norm_list(deser_list(ser_list(tail(l)))) == rtmap_list(tail(l))))", 'IH head and tail')],
    goal="implies(wfv_list(l), norm_list(deser_list(ser_list(l))) == rtmap_list(l))", serves=('C09',))
R.lemma('C09/keys-kept/step-PE', vars={'e': 'PE', 'k': 'Str'},
    hyps=[C("implies(is_ECons(e), ents_has(ser_ents(erest(e)), k) == ents_has(erest(e), k))", 'IH rest')],
    goal="ents_has(ser_ents(e), k) == ents_has(e, k)", serves=('C09', 'C07'), note='serialising a dict keeps exactly its keys')
KEYS_KEPT = C("forall('PE','Str', lambda x, k: ents_has(ser_ents(x), k) == ents_has(x, k))", 'THEOREM C09/keys-kept (proved by its own induction step)')
R.lemma('C09/round-trip/step-PE', vars={'e': 'PE'},
    hyps=RT_AX + [KEYS_KEPT, C("implies(is_ECons(e), implies(wfv(evalue(e)), norm(deser(ser(evalue(e)))) == rtmap(evalue(e))) and implies(wfv_ents(erest(e)), norm_ents(deser_ents(ser_ents(erest(e)))) == rtmap_ents(erest(e))))", 'IH value and rest')],
    goal="implies(wfv_ents(e), norm_ents(deser_ents(ser_ents(e))) == rtmap_ents(e))", serves=('C09',))

# ---- C07: the serialised forms of a dict parameter and of a nested task/enum never coincide -- EXPECTED TO FAIL (known finding K-reserved)
R.lemma('C07/dict-never-reads-as-task', vars={},
    hyps=[C("immutable(PFrozen(ECons(PStr('_is_task'), PBool(True), ENil())))", 'a normalised dict parameter {"_is_task": True}')],
    goal="not marked(ser(PFrozen(ECons(PStr('_is_task'), PBool(True), ENil()))), '_is_task')", serves=('C07', 'C09'),
    note='instance of "a dict parameter never serialises like a nested task"; false for dicts that use the marker keys, which is why the injectivity and round-trip lemmas carry the reserved-free precondition (wfv)')

# ---- C07 (ii): distinct parameter trees have distinct serialisations -- a corollary of the round trip
R.lemma('C07/serialisation-injective', vars={'a': 'PV', 'b': 'PV'},
    hyps=[C("forall('PV', lambda v: implies(wfv(v), norm(deser(ser(v))) == rtmap(v)))", 'THEOREM C09/round-trip (proved by its induction steps)'),
          C("wfv(a) and wfv(b)", 'well-formed, reserved-free, normalised parameter values'), C("ser(a) == ser(b)", 'equal serialisations')],
    goal="rtmap(a) == rtmap(b)", serves=('C07',),
    note='equal documents => equal parameter trees, nested tasks compared through their reconstruction (equal by value); with A-sha1 and json.dumps injective this gives distinct keys')
# ---- C07 (iv): every key of a module-level task type is accepted by validate_file_path_key's character test
KEY_HYPS = [C("is_identifier(q)", 'qualified name of a module-level class: an identifier'), C("is_hex40(h)", 'sha1 hexdigest'),
            C("(prefix == 'pickle__') or (prefix == '')", 'KEY_PREFIX of the provided caches')]
# decomposed so that each query is one the string solver decides in milliseconds on every run (the one-step form
# `not contains(concat(prefix, q, '__', h), c)` is decided in 0.5 s on some runs and not in 300 s on others):
#   (a) the key has the shape KEYRE = (pickle__|'') identifier '__' hex{40};   (b) no string of that shape contains c / is empty
R.lemma('C07/key-accepted/shape', vars={'q': 'Str', 'h': 'Str', 'prefix': 'Str'}, hyps=KEY_HYPS,
    goal="is_key_shape(concat(prefix, q, '__', h))", serves=('C07',),
    note='the key built by BaseCache.cache_key for a module-level task type has the shape prefix + identifier + __ + 40 hex digits')
for _nm, _bad in (('dot', "'.'"), ('slash', "'/'"), ('backslash', "'\\\\'")):
    R.lemma(f'C07/key-accepted/no-{_nm}', vars={'x': 'Str'}, hyps=[C("is_key_shape(x)", 'a key of the shape proved by C07/key-accepted/shape')],
        goal=f"not contains(x, {_bad})", serves=('C07',),
        note='every key of a module-level task type passes validate_file_path_key\'s character test (os.path.sep is / or \\, altsep is None or /); the resolved-parent test is C18\'s')
R.lemma('C07/key-accepted/non-empty', vars={'x': 'Str'}, hyps=[C("is_key_shape(x)", 'a key of the shape proved by C07/key-accepted/shape')],
    goal="x != ''", serves=('C07',))
