# The abstract Runner contract (labtech/types.py:207-306) and its two implementations -- DESIGN 6.C, 6.D
RN = 'labtech.types:Runner'
SR = 'labtech.runners.serial:SerialRunner'
PRK = 'labtech.runners.process:ProcessRunner'

R.record('Res', immutable={'value': 'Val', 'meta': 'Meta'})          # TaskResult
R.func('Res.value', ['Res'], 'Val')
R.func('Res.meta', ['Res'], 'Meta')
R.func('Task_to_Inst', ['Task'], 'Inst')        # the representative instance the scheduler holds for a value
R.axiom("forall('Task', lambda t: Inst_to_Task(Task_to_Inst(t)) == t)", name='A-rep: the stored instance of a value has that value')
R.func('EVAL', ['Task'], 'Val')                 # SPEC: the sequential dependency-first value of a task (exists by A-run)
R.func('depinsts', ['Inst'], 'Set[Inst]')       # SPEC: every task *instance* occurring anywhere in the parameters
R.axiom("forall('Inst','Inst', lambda t, i: implies(i in depinsts(t), Inst_to_Task(i) in deps(Inst_to_Task(t))))", name='A-depinsts-sound (definition of deps as the values of depinsts)')
R.axiom("forall('Inst','Task', lambda t, d: implies(d in deps(Inst_to_Task(t)), exists('Inst', lambda i: (i in depinsts(t)) and (Inst_to_Task(i) == d))))", name='A-depinsts-complete (definition)')

# what wait() yields besides the task: ResultMeta | BaseException
R.func('wr_is_meta', ['WaitRes'], 'Bool')
R.func('wr_meta', ['WaitRes'], 'Meta')
R.func('wr_exc', ['WaitRes'], 'Exc')
R.func('WaitRes_to_Meta', ['WaitRes'], 'Meta')
R.func('WaitRes_to_Exc', ['WaitRes'], 'Exc')
R.func('Meta_to_WaitRes', ['Meta'], 'WaitRes')
R.func('Exc_to_WaitRes', ['Exc'], 'WaitRes')
R.axiom("forall('Meta', lambda m: wr_is_meta(Meta_to_WaitRes(m)) and (wr_meta(Meta_to_WaitRes(m)) == m) and (WaitRes_to_Meta(Meta_to_WaitRes(m)) == m))", name='A-union: ResultMeta | BaseException tagging (1)')
R.axiom("forall('Exc', lambda e: (not wr_is_meta(Exc_to_WaitRes(e))) and (wr_exc(Exc_to_WaitRes(e)) == e) and (WaitRes_to_Exc(Exc_to_WaitRes(e)) == e))", name='A-union: ResultMeta | BaseException tagging (2)')
R.axiom("forall('WaitRes', lambda w: (WaitRes_to_Meta(w) == wr_meta(w)) and (WaitRes_to_Exc(w) == wr_exc(w)))", name='A-union (3)')
R.scope.update({'WaitRes': 6})      # finite scope must have room for the disjoint images of Meta and Exc
R.isinstance_tests[('WaitRes', 'Exception')] = "(not wr_is_meta(x)) and exc_is(wr_exc(x), 'Exception')"
R.isinstance_tests[('WaitRes', 'ResultMeta')] = "wr_is_meta(x)"
R.isinstance_tests[('WaitRes', 'BaseException')] = "not wr_is_meta(x)"

R.cls(RN,
    ghost={'INFLIGHT': 'Set[Task]', 'RES': 'Map[Task,Res]', 'SUBMITTED': 'Set[Task]', 'SUBUC': 'Set[Task]'},
    views={'INFLIGHT': 'self.INFLIGHT', 'RES': 'self.RES'})

R.contract(f'{RN}.submit_task', abstract=True,
    self_type='Obj[Runner]', params={'task': 'Task', 'task_name': 'Str', 'use_cache': 'Bool'},
    requires=[C("task not in INFLIGHT(self)", 'not already in flight', serves=('C03', 'C01', 'C11', 'C14')),
              C("task not in RES(self)", 'has no result yet (each task is submitted at most once per run)', serves=('C03', 'C10', 'C17', 'C02'))],
    ensures=[C("forall('Task', lambda k: (k in INFLIGHT(self)) == ((k in old(INFLIGHT(self))) or (k == task)))", 'in flight += task'),
             C("RES(self) == old(RES(self))", 'results untouched')],
    frame=['self.INFLIGHT'])
# Only zero-ness of the count is observable by the coordinator (`> 0` tests), so that is what the contract pins down.
R.contract(f'{RN}.pending_task_count', abstract=True, self_type='Obj[Runner]', params={}, returns='Int', pure=True,
    ensures=[C("(result >= 0) and ((result == 0) == empty(INFLIGHT(self)))", 'zero iff nothing in flight', serves=())])
R.contract(f'{RN}.get_result', abstract=True, self_type='Obj[Runner]', params={'task': 'Task'}, returns='Res',
    ensures=["task in old(RES(self))", "result == RES(self)[task]", "RES(self) == old(RES(self))", "forall('Task', lambda k: (k in INFLIGHT(self)) == (k in old(INFLIGHT(self))))"],
    raises={'KeyError': ["task not in RES(self)"]}, frame=[])
R.contract(f'{RN}.remove_results', abstract=True, self_type='Obj[Runner]', params={'tasks': 'Set[Task]'},
    ensures=[
        C("forall('Task', lambda k: implies(k not in tasks, (k in RES(self)) == (k in old(RES(self)))))",
          'retention: results of other tasks stay', serves=('C01', 'C02', 'C17', 'C10', 'C14')),
        C("forall('Task', lambda k: implies(k in RES(self), RES(self)[k] == old(RES(self))[k]))",
          'retained values unchanged', serves=('C01', 'C02', 'C17')),
        C("forall('Task', lambda k: implies(k in tasks, k not in RES(self)))",
          'release: every named task is removed', serves=('C17',)),
        C("forall('Task', lambda k: (k in INFLIGHT(self)) == (k in old(INFLIGHT(self))))", 'in-flight set untouched'),
    ],
    frame=['self.RES'])
R.contract(f'{RN}.cancel', abstract=True, self_type='Obj[Runner]', params={},
    ensures=[C("subset(INFLIGHT(self), old(INFLIGHT(self)))", 'only removes from the in-flight set'), "RES(self) == old(RES(self))"],
    frame=['self.INFLIGHT'])
R.contract(f'{RN}.stop', abstract=True, self_type='Obj[Runner]', params={},
    ensures=["RES(self) == old(RES(self))", "subset(INFLIGHT(self), old(INFLIGHT(self)))"], frame=['self.INFLIGHT'])
R.contract(f'{RN}.close', abstract=True, self_type='Obj[Runner]', params={}, ensures=[], frame=[])

# consumer-side step contract of the wait() generator: what each yielded pair tells the consumer.
# wait() may yield ANY in-flight task, in ANY order, with ANY outcome: every completion order is covered.
R.contract(f'{RN}.wait#yield', abstract=True, self_type='Obj[Runner]', params={}, returns='Tuple[Task,WaitRes]',
    ensures=[
        C("result[0] in old(INFLIGHT(self))", 'a yielded task was in flight', serves=()),
        C("forall('Task', lambda k: (k in INFLIGHT(self)) == ((k in old(INFLIGHT(self))) and (k != result[0])))", 'AT THE YIELD the task is no longer in flight'),
        C("implies(wr_is_meta(result[1]), (result[0] in RES(self)) and (RES(self)[result[0]].meta == wr_meta(result[1])))", 'a successful task has its result in memory'),
        C("forall('Task', lambda k: implies(k != result[0], ((k in RES(self)) == (k in old(RES(self)))) and implies(k in RES(self), RES(self)[k] == old(RES(self))[k])))", 'other results untouched'),
        C("implies(not wr_is_meta(result[1]), (result[0] in RES(self)) == (result[0] in old(RES(self))))", 'a failed task gains no result'),
        C("implies(old(RESOK(RES(self))), RESOK(RES(self)))", 'held results are the tasks\' own values', serves=('C01',)),
    ],
    frame=['self.INFLIGHT', 'self.RES'])

# ------------------------------------------------------------------ SerialRunner
R.record('Sub', cls='labtech.runners.serial:TaskSubmission', immutable={'task': 'Inst', 'task_name': 'Str', 'use_cache': 'Bool'},
         ctor={}, ctor_kwargs=True)
R.func('Sub.task', ['Sub'], 'Inst')
R.func('Sub.task_name', ['Sub'], 'Str')
R.func('Sub.use_cache', ['Sub'], 'Bool')
R.cls(SR, bases=(RN,),
    fields={'context': 'Ctx', 'storage': 'Storage', 'task_submissions': 'Deque[Sub]', 'results_map': 'Map[Task,Res]'},
    views={'INFLIGHT': '{Inst_to_Task(s.task) for s in self.task_submissions}', 'RES': 'self.results_map'},
    invariant=[C("forall('Sub','Sub', lambda a, b: implies((a in self.task_submissions) and (b in self.task_submissions) and (Inst_to_Task(a.task) == Inst_to_Task(b.task)), a == b))",
                 'S1: one submission per task value'),
               C("forall('Sub', lambda a: implies(a in self.task_submissions, Inst_to_Task(a.task) not in self.results_map))",
                 'S2: a queued task has no result yet')])

R.implements(f'{SR}.submit_task', f'{RN}.submit_task', self_type='Obj[SerialRunner]',
    params={'task': 'Inst', 'task_name': 'Str', 'use_cache': 'Bool'},
    extra_requires=['INV(self)'], extra_ensures=['INV(self)'],
    frame=['self.task_submissions'])
R.implements(f'{SR}.pending_task_count', f'{RN}.pending_task_count', self_type='Obj[SerialRunner]', pure=False,
    extra_requires=['INV(self)'], frame=[])
R.implements(f'{SR}.get_result', f'{RN}.get_result', self_type='Obj[SerialRunner]', frame=[])
R.implements(f'{SR}.remove_results', f'{RN}.remove_results', self_type='Obj[SerialRunner]', frame=['self.results_map'],
    candidates=[
        "forall('Task', lambda k: (k in self.results_map) == ((k in old(self.results_map)) and (k not in __done__)))",
        "forall('Task', lambda k: implies(k in self.results_map, self.results_map[k] == old(self.results_map)[k]))",
    ])
R.implements(f'{SR}.cancel', f'{RN}.cancel', self_type='Obj[SerialRunner]', frame=['self.task_submissions'],
    extra_requires=['INV(self)'], extra_ensures=['INV(self)', C("empty(INFLIGHT(self))", 'serial: nothing is executing between waits, so everything is cancelled', serves=('C14',))])
R.implements(f'{SR}.stop', f'{RN}.stop', self_type='Obj[SerialRunner]', frame=[])
R.implements(f'{SR}.close', f'{RN}.close', self_type='Obj[SerialRunner]', frame=[])

# ------------------------------------------------------------------ ProcessRunner
R.cls(PRK, bases=(RN,),
    fields={'results_map': 'Map[Task,Res]', 'future_to_task': 'Map[Fut,Inst]', 'executor': 'Obj[ProcessExecutor]',
            'process_event_queue': 'Queue', 'log_queue': 'Queue'},
    views={'INFLIGHT': '{Inst_to_Task(self.future_to_task[f]) for f in self.future_to_task}', 'RES': 'self.results_map'},
    invariant=[
        C("forall('Fut','Fut', lambda a, b: implies((a in self.future_to_task) and (b in self.future_to_task) and (Inst_to_Task(self.future_to_task[a]) == Inst_to_Task(self.future_to_task[b])), a == b))",
          'P1: one future per task value'),
        C("forall('Fut', lambda a: implies(a in self.future_to_task, Inst_to_Task(self.future_to_task[a]) not in self.results_map))",
          'P3: a tracked task has no result yet'),
        C("INV(self.executor)", 'P0: executor invariant'),
        C("forall('Fut', lambda f: implies(f in self.future_to_task, f.done or (f in PEND(self.executor)) or ((f.id in RUN(self.executor)) and (RUN(self.executor)[f.id][0] == f))))",
          'P2: every tracked future is done, queued or running (nothing is lost)', serves=('C11',)),
    ])
R.implements(f'{PRK}.pending_task_count', f'{RN}.pending_task_count', self_type='Obj[ProcessRunner]', pure=False,
    extra_requires=['INV(self)'], frame=[])
R.implements(f'{PRK}.get_result', f'{RN}.get_result', self_type='Obj[ProcessRunner]', frame=[])
R.implements(f'{PRK}.remove_results', f'{RN}.remove_results', self_type='Obj[ProcessRunner]', frame=['self.results_map'],
    candidates=[
        "forall('Task', lambda k: (k in self.results_map) == ((k in old(self.results_map)) and (k not in __done__)))",
        "forall('Task', lambda k: implies(k in self.results_map, self.results_map[k] == old(self.results_map)[k]))",
    ])
