# Value trees: what a task field may hold (tasks.py, serialization.py) -- DESIGN 6.A
TK = 'labtech.tasks'

R.datatype_group([
    ('PV', [('PNone', []), ('PBool', [('pb', 'Bool')]), ('PInt', [('pi', 'Int')]), ('PFloat', [('pf', 'Flt')]), ('PStr', [('ps', 'Str')]),
            ('PEnum', [('ecls', 'Cls'), ('ename', 'Str'), ('emix', 'Mix')]),
            ('PTask', [('inst', 'Inst')]),
            ('PList', [('litems', 'PL')]), ('PTuple', [('titems', 'PL')]),
            ('PDict', [('dents', 'PE')]), ('PFrozen', [('fents', 'PE')]),
            ('POther', [('otag', 'Tag')])]),
    ('PL', [('LNil', []), ('LCons', [('head', 'PV'), ('tail', 'PL')])]),
    ('PE', [('ENil', []), ('ECons', [('ekey', 'PV'), ('evalue', 'PV'), ('erest', 'PE')])]),
])
R.scope.update({'Inst': 4})       # more instances than values, so that two distinct instances can share a value in finite scope
R.enum('Mix', ['NONE', 'STR', 'INT', 'FLOAT'])          # str/int/float mixin of an Enum class (IntEnum, StrEnum, ...)

# ---- spec functions (independent text, structural recursion)
R.macro('is_scalar', ['v'], 'is_PNone(v) or is_PBool(v) or is_PInt(v) or is_PFloat(v) or is_PStr(v) or is_PEnum(v)')
R.recfunc('tasks_in', {'v': 'PV'}, 'Set[Inst]',
    "ite(is_PTask(v), sadd(typed_empty('Set[Inst]'), inst(v)), ite(is_PList(v), tasks_in_list(litems(v)), ite(is_PTuple(v), tasks_in_list(titems(v)), "
    "ite(is_PDict(v), tasks_in_ents(dents(v)), ite(is_PFrozen(v), tasks_in_ents(fents(v)), typed_empty('Set[Inst]'))))))")
R.recfunc('tasks_in_list', {'l': 'PL'}, 'Set[Inst]', "ite(is_LNil(l), typed_empty('Set[Inst]'), tasks_in(head(l)) | tasks_in_list(tail(l)))")
R.recfunc('tasks_in_ents', {'e': 'PE'}, 'Set[Inst]', "ite(is_ENil(e), typed_empty('Set[Inst]'), tasks_in(evalue(e)) | tasks_in_ents(erest(e)))")
# what immutable_param_value produces: tuples and frozendicts with string keys all the way down
R.recfunc('immutable', {'v': 'PV'}, 'Bool',
    "is_scalar(v) or is_PTask(v) or (is_PTuple(v) and imm_list(titems(v))) or (is_PFrozen(v) and imm_ents(fents(v)))")
R.recfunc('imm_list', {'l': 'PL'}, 'Bool', "is_LNil(l) or (immutable(head(l)) and imm_list(tail(l)))")
R.recfunc('imm_ents', {'e': 'PE'}, 'Bool', "is_ENil(e) or (is_PStr(ekey(e)) and immutable(evalue(e)) and imm_ents(erest(e)))")

# ---- isinstance over value trees, with Python's overlaps (bool is an int; an Enum member with a mixin is also a str/int/float)
IT = R.isinstance_tests
IT[('PV', 'list')] = 'is_PList(x)'
IT[('PV', 'tuple')] = 'is_PTuple(x)'
IT[('PV', 'dict')] = 'is_PDict(x)'
IT[('PV', 'frozendict')] = 'is_PFrozen(x)'
IT[('PV', 'Enum')] = 'is_PEnum(x)'
IT[('PV', 'str')] = 'is_PStr(x) or (is_PEnum(x) and (emix(x) == Mix.STR))'
IT[('PV', 'bool')] = 'is_PBool(x)'
IT[('PV', 'int')] = 'is_PInt(x) or is_PBool(x) or (is_PEnum(x) and (emix(x) == Mix.INT))'
IT[('PV', 'float')] = 'is_PFloat(x) or (is_PEnum(x) and (emix(x) == Mix.FLOAT))'
IT[('PV', 'cast(UnionType, ParamScalar)')] = 'is_scalar(x)'
R.func('pv_id', ['PV'], 'Ident')
R.func('PV_to_Inst', ['PV'], 'Inst')
R.func('Inst_to_PV', ['Inst'], 'PV')
R.axiom("forall('Inst', lambda i: Inst_to_PV(i) == PTask(i))", name='definition: a task object as a parameter value')
R.axiom("forall('Inst', lambda i: PV_to_Inst(PTask(i)) == i)", name='definition: the task object held by a PTask value')

R.contract('labtech.types:is_task', params={'obj': 'PV'}, returns='Bool', pure=True, defn='is_PTask(obj)', trusted=True,
    note='is_task(obj): the class carries TaskInfo and the object was initialised as a task')

R.contract(f'{TK}:find_tasks_in_param',
    params={'param_value': 'PV', 'searched_coll_ids': 'Opt[Set[Ident]]'}, defaults={'searched_coll_ids': None}, returns='List[Inst]',
    pure=True, spec='tasks_in', lift={'concat_list': 'tasks_in_list', 'concat_vals': 'tasks_in_ents'},
    lift_pred={'immutable': {'list': 'imm_list', 'ents': 'imm_ents'}},
    reveal=('tasks_in', 'tasks_in_list', 'tasks_in_ents', 'immutable', 'imm_list', 'imm_ents'),
    requires=[C("immutable(param_value)", 'the value was produced by immutable_param_value')],
    ensures=[C("result == tasks_in(param_value)", 'finds every task instance at any nesting depth, and nothing else', serves=('C02', 'C01', 'C03', 'C15', 'C20'))],
    raises={}, frame=[],
    assume_unreachable=('id(param_value) in searched_coll_ids',),
    note='A-tree: immutable parameter values are finite trees (no container contains itself), so the cycle guard never fires')

# field access of a task instance
R.func('fieldval', ['Inst', 'Field'], 'PV')          # getattr(task, field.name)
R.func('fields_of', ['Inst'], 'Set[Field]')          # dataclasses.fields(task)
R.axiom("forall('Inst','Inst', lambda t, i: (i in depinsts(t)) == exists('Field', lambda f: (f in fields_of(t)) and (i in tasks_in(fieldval(t, f)))))",
        name='definition of depinsts: the task instances found in any field')
R.axiom("forall('Inst','Field', lambda t, f: implies(f in fields_of(t), immutable(fieldval(t, f))))",
        name='A-norm: fields of a constructed task hold normalised (immutable) values (post of _task_post_init, C15)')
R.contract('trusted:fields', trusted=True, params={'task': 'Inst'}, returns='Set[Field]', pure=True, defn='fields_of(task)')
R.contract('trusted:getattr', trusted=True, params={'obj': 'Inst', 'name': 'FieldName'}, returns='PV', pure=True, defn='fieldval(obj, fname_field(name))')
R.func('fname_field', ['FieldName'], 'Field')
R.record('Field', immutable={'name': 'FieldName'})
R.func('Field.name', ['Field'], 'FieldName')
R.axiom("forall('Field', lambda f: fname_field(f.name) == f)", name='field names identify fields')
R.const_names = dict(R.const_names)

R.contract(f'{TK}:get_direct_dependencies',
    params={'task': 'Inst'}, returns='List[Inst]', pure=True,
    annot={'Task': 'Inst', 'int': 'Inst'},          # annotations in this function speak of task OBJECTS; id(obj) identifies the object
    ensures=[
        C("forall('Inst', lambda i: implies(i in result, Inst_to_Task(i) in deps(Inst_to_Task(task))))", 'sound', serves=('C02', 'C03', 'C01')),
        C("forall('Task', lambda d: implies(d in deps(Inst_to_Task(task)), exists('Inst', lambda i: (i in result) and (Inst_to_Task(i) == d))))",
          'complete-by-value', serves=('C02', 'C01', 'C03')),
        C("forall('Inst', lambda i: implies(i in depinsts(task), i in result))",
          'complete-by-instance: every dependency instance in the parameters is returned', serves=('C01', 'C02', 'C03')),
    ],
    frame=[], cand_locals=('dependency_tasks',),
    candidates=["forall('Inst', lambda i: implies(i in __ret__, exists('Field', lambda f: (f in fields_of(task)) and (i in tasks_in(fieldval(task, f))))))",
                "forall('Inst','Field', lambda i, f: implies((f in __done__) and (i in tasks_in(fieldval(task, f))), i in __ret__))",
                "forall('Inst','Field', lambda i, f: implies((f in __done__) and (i in tasks_in(fieldval(task, f))), exists('Inst', lambda j: (j in __ret__) and (Inst_to_Task(j) == Inst_to_Task(i)))))",
                # inner loop (over the instances found in one field): what it has visited, and what the outer loop had established
                "forall('Inst', lambda i: implies(i in __done__, exists('Inst', lambda j: (j in __ret__) and (Inst_to_Task(j) == Inst_to_Task(i)))))",
                "forall('Inst', lambda i: implies(i in __done__, i in __ret__))",
                # the same facts when the accumulator is a dict keyed by object identity
                "forall('Inst', lambda k: implies(k in dependency_tasks, dependency_tasks[k] == k))",
                "forall('Inst', lambda i: implies(i in dependency_tasks, exists('Field', lambda f: (f in fields_of(task)) and (i in tasks_in(fieldval(task, f))))))",
                "forall('Inst', lambda i: implies(i in __done__, i in dependency_tasks))",
                "forall('Inst','Field', lambda i, f: implies((f in __done__) and (i in tasks_in(fieldval(task, f))), i in dependency_tasks))",
                "forall('Inst','Field', lambda i, f: implies((f in __done_outer__) and (i in tasks_in(fieldval(task, f))), i in dependency_tasks))",
                "forall('Inst','Field', lambda i, f: implies((f in __done_outer__) and (i in tasks_in(fieldval(task, f))), exists('Inst', lambda j: (j in __ret__) and (Inst_to_Task(j) == Inst_to_Task(i)))))",
                "forall('Inst','Field', lambda i, f: implies((f in __done_outer__) and (i in tasks_in(fieldval(task, f))), i in __ret__))",
                ])

# ---- Task.result (tasks.py:78-85)
R.func('has_legacy_result', ['Inst'], 'Bool')
R.hasattr_tests = {('Inst', '_result'): 'has_legacy_result(x)'}
R.contract(f'{TK}:_task_result', self_type='Inst', params={}, returns='Val',
    requires=[C("not has_legacy_result(self)", 'A-no-memo: nothing in labtech ever sets a `_result` attribute on a task (the hasattr fast path is dead code)')],
    ensures=[C("(not isnone(self._results_map)) and (Inst_to_Task(self) in unopt(self._results_map)) and (result == unopt(self._results_map)[Inst_to_Task(self)].value)",
               'reading a dependency\'s result yields what the runner-provided map of THIS run holds for that very task', serves=('C02', 'C01'))],
    raises={'TaskError': [C("isnone(self._results_map) or (Inst_to_Task(self) not in unopt(self._results_map))",
                            'it raises exactly when this run has no result for the task (e.g. the dependency failed)', serves=('C02', 'C10'))]},
    frame=[])

# ---- normalisation: immutable_param_value (tasks.py:33-45)
R.macro('str_key', ['k'], "is_PStr(k) or (is_PEnum(k) and (emix(k) == Mix.STR))")     # isinstance(key, str)
R.recfunc('norm', {'v': 'PV'}, 'PV',
    "ite(is_PList(v), PTuple(norm_list(litems(v))), ite(is_PTuple(v), PTuple(norm_list(titems(v))), "
    "ite(is_PDict(v), PFrozen(norm_ents(dents(v))), ite(is_PFrozen(v), PFrozen(norm_ents(fents(v))), v))))")
R.recfunc('norm_list', {'l': 'PL'}, 'PL', "ite(is_LNil(l), l, LCons(norm(head(l)), norm_list(tail(l))))")
R.recfunc('norm_ents', {'e': 'PE'}, 'PE', "ite(is_ENil(e), e, ECons(ekey(e), norm(evalue(e)), norm_ents(erest(e))))")
R.recfunc('normable', {'v': 'PV'}, 'Bool',
    "((is_PList(v) and normable_list(litems(v))) or (is_PTuple(v) and normable_list(titems(v))) or (is_PDict(v) and normable_ents(dents(v))) "
    "or (is_PFrozen(v) and normable_ents(fents(v))) or is_scalar(v) or is_PTask(v))")
R.recfunc('normable_list', {'l': 'PL'}, 'Bool', "is_LNil(l) or (normable(head(l)) and normable_list(tail(l)))")
R.recfunc('normable_ents', {'e': 'PE'}, 'Bool', "is_ENil(e) or (str_key(ekey(e)) and normable(evalue(e)) and normable_ents(erest(e)))")
R.recfuncs['imm_ents']['body'] = "is_ENil(e) or (str_key(ekey(e)) and immutable(evalue(e)) and imm_ents(erest(e)))"
NORMF = ('norm', 'norm_list', 'norm_ents', 'normable', 'normable_list', 'normable_ents')

R.contract('labtech.utils:ensure_dict_key_str', params={'value': 'PV', 'exception_type': 'ExcCls'}, returns='PV', pure=True, key_check=True,
    ensures=["result == value", "str_key(value)"], raises={'Exception': ["not str_key(value)"]}, frame=[],
    note='identity on string keys; raises the given exception type otherwise')
R.contract(f'{TK}:immutable_param_value',
    params={'key': 'Str', 'value': 'PV'}, returns='PV', pure=True,
    spec='norm', lift={'map_list': 'norm_list', 'map_ents': 'norm_ents'},
    lift_raises={'TaskError': {'list': 'normable_list', 'ents': 'normable_ents'}},
    reveal=NORMF,
    ensures=[C("normable(value)", 'it returns only for supported values: scalars, enums, tasks, and lists/tuples/string-keyed dicts of them at every depth', serves=('C15',)),
             C("result == norm(value)", 'lists become tuples and dicts become frozendicts at every depth; everything else is unchanged', serves=('C15',))],
    raises={'TaskError': [C("not normable(value)", 'TaskError exactly for an unsupported value or a non-string dict key somewhere inside', serves=('C15',))]},
    frame=[])

# ---- task construction and copying (tasks.py:48-59, 88-104).  These three functions set attributes whose NAMES are computed
# (object.__setattr__(self, f.name, ...), state dicts): outside PyVC's fragment.  Their contracts are stated from the property;
# the check decides them with the bounded native stand-in replay/values.py (never counted as proved).
R.contract(f'{TK}:_task_post_init', self_type='Inst', params={},
    ensures=[C("forall('Field', lambda f: implies(f in fields_of(self), immutable(fieldval(self, f))))", 'every field holds its normalised value', serves=('C15',))],
    raises={'TaskError': []}, frame=['Inst.*'])
R.contract(f'{TK}:_task__getstate__', self_type='Inst', params={}, returns='StateDict',
    ensures=[C("state_has_no_results(result)", 'the pickled state carries the fields, _lt, _is_task and cache_key, but no results map, context or result_meta', serves=('C15', 'C16'))], frame=[])
R.func('state_has_no_results', ['StateDict'], 'Bool')
R.contract(f'{TK}:_task__setstate__', self_type='Inst', params={'state': 'StateDict'},
    ensures=[C("post_init_derived(self)", 'the copy again carries whatever the task type\'s post_init derives', serves=('C15',))], frame=['Inst.*'])
R.func('post_init_derived', ['Inst'], 'Bool')

# ---- serialisation (serialization.py) -- C07 / C09
SZ = 'labtech.serialization:Serializer'
R.func('cls_fullname', ['Cls'], 'Str')            # f'{cls.__module__}.{cls.__qualname__}' of an Enum class
R.func('fullname_cls', ['Str'], 'Cls')            # deserialize_class for enum classes
R.func('deser_task_pv', ['PV'], 'Inst')           # SPEC: the task reconstructed from such a document
R.func('enum_mix', ['Cls'], 'Mix')
# entries of a dict-shaped document: lookup of a constant key, in the order-insensitive way dict.get works
R.recfunc('ents_get', {'e': 'PE', 'k': 'Str'}, 'PV', "ite(is_ENil(e), PNone(), ite(is_PStr(ekey(e)) and (ps(ekey(e)) == k), evalue(e), ents_get(erest(e), k)))")
R.recfunc('ents_has', {'e': 'PE', 'k': 'Str'}, 'Bool', "(not is_ENil(e)) and ((is_PStr(ekey(e)) and (ps(ekey(e)) == k)) or ents_has(erest(e), k))")
R.macro('marked', ['v', 'k'], "is_PDict(v) and ents_has(dents(v), k) and is_PBool(ents_get(dents(v), k)) and pb(ents_get(dents(v), k))")
R.macro('ENUMDOC', ['c', 'n'], "PDict(ECons(PStr('_is_enum'), PBool(True), ECons(PStr('__class__'), PStr(cls_fullname(c)), ECons(PStr('name'), PStr(n), ENil()))))")
R.recfunc('ser', {'v': 'PV'}, 'PV',
    "ite(is_PTask(v), ser_task_pv(inst(v)), ite(is_PTuple(v), PList(ser_list(titems(v))), ite(is_PFrozen(v), PDict(ser_ents(fents(v))), "
    "ite(is_PEnum(v), ENUMDOC(ecls(v), ename(v)), v))))")
R.recfunc('ser_list', {'l': 'PL'}, 'PL', "ite(is_LNil(l), l, LCons(ser(head(l)), ser_list(tail(l))))")
R.recfunc('ser_ents', {'e': 'PE'}, 'PE', "ite(is_ENil(e), e, ECons(ekey(e), ser(evalue(e)), ser_ents(erest(e))))")
R.recfunc('deser', {'j': 'PV'}, 'PV',
    "ite(marked(j, '_is_task'), PTask(deser_task_pv(j)), ite(marked(j, '_is_enum'), PEnum(fullname_cls(ps(ents_get(dents(j), '__class__'))), ps(ents_get(dents(j), 'name')), enum_mix(fullname_cls(ps(ents_get(dents(j), '__class__'))))), "
    "ite(is_PList(j), PList(deser_list(litems(j))), ite(is_PDict(j), PDict(deser_ents(dents(j))), j))))")
R.recfunc('deser_list', {'l': 'PL'}, 'PL', "ite(is_LNil(l), l, LCons(deser(head(l)), deser_list(tail(l))))")
R.recfunc('deser_ents', {'e': 'PE'}, 'PE', "ite(is_ENil(e), e, ECons(ekey(e), deser(evalue(e)), deser_ents(erest(e))))")
SERF = ('ser', 'ser_list', 'ser_ents', 'deser', 'deser_list', 'deser_ents', 'ents_get', 'ents_has', 'immutable', 'imm_list', 'imm_ents')

R.classes['labtech.serialization:Serializer'] = R.classes.get('labtech.serialization:Serializer') or R.cls(SZ, fields={})
R.contract(f'{SZ}.is_serialized_task', self_type='Obj[Serializer]', params={'serialized': 'PV'}, returns='Bool', pure=True, defn="marked(serialized, '_is_task')", trusted=True,
    note="isinstance(serialized, dict) and bool(serialized.get('_is_task', False)); the .get/bool on an arbitrary JSON value is read as the spec predicate `marked`")
R.contract(f'{SZ}.is_serialized_enum', self_type='Obj[Serializer]', params={'serialized': 'PV'}, returns='Bool', pure=True, defn="marked(serialized, '_is_enum')", trusted=True)
R.contracts['labtech.serialization:Serializer.serialize_task'] = None
R.contract(f'{SZ}.serialize_task', self_type='Obj[Serializer]', params={'task': 'PV'}, returns='PV', pure=True,
    requires=["is_PTask(task)"], ensures=["result == ser_task_pv(inst(task))"], raises={'SerializationError': []}, frame=[], trusted=True,
    note='builds the document field by field (computed attribute names): decided by the bounded stand-in, used here through its spec symbol')
R.contract(f'{SZ}.serialize_enum', self_type='Obj[Serializer]', params={'value': 'PV'}, returns='PV', pure=True,
    requires=["is_PEnum(value)"], ensures=["result == ENUMDOC(ecls(value), ename(value))"], frame=[], trusted=True,
    note='a three-key dict literal of the class full name and the member name')
R.contract(f'{SZ}.deserialize_task', self_type='Obj[Serializer]', params={'serialized': 'PV', 'result_meta': 'Opt[Meta]'}, returns='PV', pure=True,
    ensures=["result == PTask(deser_task_pv(serialized))"], raises={'SerializationError': []}, frame=[], trusted=True,
    note='rebuilds the task through its class constructor: decided by the bounded stand-in')
R.contract(f'{SZ}.deserialize_enum', self_type='Obj[Serializer]', params={'serialized': 'PV'}, returns='PV', pure=True,
    ensures=["result == PEnum(fullname_cls(ps(ents_get(dents(serialized), '__class__'))), ps(ents_get(dents(serialized), 'name')), enum_mix(fullname_cls(ps(ents_get(dents(serialized), '__class__')))))"],
    frame=[], trusted=True, note='enum_cls[name] after importing the class by its recorded full name')
R.contract(f'{SZ}.serialize_value', self_type='Obj[Serializer]', params={'value': 'PV'}, returns='PV', pure=True,
    spec='ser', lift={'map_list': 'ser_list', 'map_ents': 'ser_ents'}, lift_pred={'immutable': {'list': 'imm_list', 'ents': 'imm_ents'}}, reveal=SERF,
    requires=[C("immutable(value)", 'the value was produced by immutable_param_value')],
    ensures=[C("result == ser(value)", 'the document is the spec serialisation: tasks and enums as marked dicts carrying their class, tuples as lists, frozendicts as dicts, scalars as themselves', serves=('C07', 'C09'))],
    raises={}, frame=[])
R.contract(f'{SZ}.deserialize_value', self_type='Obj[Serializer]', params={'value': 'PV'}, returns='PV', pure=True,
    spec='deser', lift={'map_list': 'deser_list', 'map_ents': 'deser_ents'}, reveal=SERF,
    ensures=[C("result == deser(value)", 'marked dicts become tasks/enums again AT EVERY DEPTH (inside lists and dicts too)', serves=('C09',))],
    raises={'SerializationError': []}, frame=[])
R.contracts['labtech.utils:ensure_dict_key_str'].params = {'value': 'PV', 'exception_type': 'ExcCls'}
R.const_names['SerializationError'] = 'ExcCls'
R.const_names['TaskError'] = 'ExcCls'
