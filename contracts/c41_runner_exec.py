# Execution side of the runners: wait() generators, submit paths, the child-side function -- DESIGN 6.C/6.D
RN = 'labtech.types:Runner'
SR = 'labtech.runners.serial:SerialRunner'
PRK = 'labtech.runners.process:ProcessRunner'

R.record('Inst', cls='labtech.tasks:<task instance>',
         mutable={'result_meta': 'Opt[Meta]', '_results_map': 'Opt[Map[Task,Res]]', 'context': 'Opt[Ctx]'},
         pure={'_lt.max_parallel': 'maxpar(type_of_Task(Inst_to_Task(self)))'})
R.func('filter_ctx', ['Task', 'Ctx'], 'Ctx')      # user filter_context: a function of the task's fields and the context (A-run)
R.contract('labtech.tasks:<filter_context>', self_type='Inst', params={'context': 'Ctx'}, returns='Ctx', pure=True, trusted=True,
    defn='filter_ctx(Inst_to_Task(self), context)', note='user-overridable method, assumed deterministic (A-run)')
R.alias('Inst', 'filter_context', 'labtech.tasks:<filter_context>')
R.alias('Inst', '_set_results_map', 'labtech.tasks:_task_set_results_map')
R.contract('labtech.tasks:_task_set_results_map',
    self_type='Inst', params={'results_map': 'Map[Task,Res]'},
    ensures=["forall('Inst', lambda i: i._results_map == (some(results_map) if i == self else old(i._results_map)))"],
    frame=['Inst._results_map'])

# the results a task may read are exactly those of its dependencies that are held, each with its own value
R.macro('RESOK', ['m'], "forall('Task', lambda d: implies(d in m, m[d].value == EVAL(d)))")
R.macro('HANDED', ['task', 'm'], "forall('Inst', lambda i: implies(i in depinsts(task), i._results_map == some(m)))")

R.contract('labtech.runners.base:run_or_load_task',
    params={'task': 'Inst', 'task_name': 'Str', 'use_cache': 'Bool', 'filtered_context': 'Ctx', 'storage': 'Storage'},
    returns='Res',
    ensures=[C("implies(use_cache or forall('Inst', lambda i: implies(i in depinsts(task), (not isnone(i._results_map)) and RESOK(unopt(i._results_map)))), result.value == EVAL(Inst_to_Task(task)))",
               'A-run/A-cache0: the value produced from correct dependency results (or loaded from an entry written by save for this task) is the reference value',
               serves=('C01',))],
    raises={'BaseException': []},
    frame=['Inst.context'],
    note='structure (context before run, one run, save after, finally) is verified in contracts/c50_cache.py; the value clause is the assumption A-run on user code')

WAIT_YIELDS = [
    C("Inst_to_Task(value[0]) in old(INFLIGHT(self))", 'a yielded task was in flight when wait() was called'),
    C("Inst_to_Task(value[0]) not in INFLIGHT(self)", 'AT THE YIELD the task is no longer in flight (the generator may be abandoned here)', serves=('C14', 'C11', 'C10', 'C17', 'C01', 'C02', 'C03')),
    C("implies(wr_is_meta(value[1]), (Inst_to_Task(value[0]) in RES(self)) and (RES(self)[Inst_to_Task(value[0])].meta == wr_meta(value[1])))", 'a successful task has its result in memory'),
    C("implies(not wr_is_meta(value[1]), Inst_to_Task(value[0]) not in RES(self))", 'a failed task has no result in memory', serves=('C10', 'C02', 'C17')),
    C("implies(old(RESOK(RES(self))), RESOK(RES(self)))", 'held results are the tasks\' own values', serves=('C01',)),
    C("INV(self)", 'object invariant holds whenever control is handed to the consumer'),
]

R.implements(f'{SR}.wait', f'{RN}.wait#yield', self_type='Obj[SerialRunner]',
    params={'timeout_seconds': 'Opt[Int]'}, returns='None',
    extra_requires=['INV(self)'],
    ensures=[C('INV(self)'), C("subset(INFLIGHT(self), old(INFLIGHT(self)))", 'wait only removes from the in-flight set')],
    yields=WAIT_YIELDS,
    rely=['self.results_map'],
    rely_ensures=[C("forall('Task', lambda k: implies(k in self.results_map, (k in old(self.results_map)) and (self.results_map[k] == old(self.results_map)[k])))", 'the consumer only removes results')],
    raises={'KeyboardInterrupt': []},
    at_call={'run_or_load_task': [C("implies(not task_submission.use_cache, HANDED(task, self.results_map))",
                                    'every dependency instance is handed the live results map before the task runs', serves=('C01', 'C02'))]},
    cand_locals=('task', 'task_submission'),
    frame=['self.task_submissions', 'self.results_map', 'Inst._results_map', 'Inst.context'],
    candidates=["forall('Inst', lambda i: implies(i in __done__, i._results_map == some(self.results_map)))",
                "INV(self)", "self.results_map == old(self.results_map)",
                "Inst_to_Task(task) not in INFLIGHT(self)", "Inst_to_Task(task) in old(INFLIGHT(self))",
                "subset(INFLIGHT(self), old(INFLIGHT(self)))"])
