# Execution side of the runners: wait() generators, submit paths, the child-side function -- DESIGN 6.C/6.D
RN = 'labtech.types:Runner'
SR = 'labtech.runners.serial:SerialRunner'
PRK = 'labtech.runners.process:ProcessRunner'

R.record('Inst', cls='labtech.tasks:<task instance>',
         mutable={'result_meta': 'Opt[Meta]', '_results_map': 'Opt[Map[Task,Res]]', 'context': 'Opt[Ctx]'},
         pure={'_lt.max_parallel': 'maxpar(type_of_Task(Inst_to_Task(self)))'})
R.func('filter_ctx', ['Task', 'Ctx'], 'Ctx')      # user filter_context: a function of the task's fields and the context (A-run)
R.contract('labtech.tasks:<filter_context>', self_type='Inst', params={'context': 'Ctx'}, returns='Ctx', pure=True, trusted=True,
    defn='filter_ctx(Inst_to_Task(self), context)', note='user-overridable method, assumed deterministic (A-run)')
R.alias('Inst', 'filter_context', 'labtech.tasks:<filter_context>')
R.alias('Inst', '_set_results_map', 'labtech.tasks:_task_set_results_map')
R.contract('labtech.tasks:_task_set_results_map',
    self_type='Inst', params={'results_map': 'Map[Task,Res]'},
    ensures=["forall('Inst', lambda i: i._results_map == (some(results_map) if i == self else old(i._results_map)))"],
    frame=['Inst._results_map'])

# the results a task may read are exactly those of its dependencies that are held, each with its own value
R.macro('RESOK', ['m'], "forall('Task', lambda d: implies(d in m, m[d].value == EVAL(d)))")
R.macro('HANDED', ['task', 'm'], "forall('Inst', lambda i: implies(i in depinsts(task), i._results_map == some(m)))")

R.contract('labtech.runners.base:run_or_load_task',
    params={'task': 'Inst', 'task_name': 'Str', 'use_cache': 'Bool', 'filtered_context': 'Ctx', 'storage': 'Storage'},
    returns='Res',
    ensures=[C("implies(use_cache or forall('Inst', lambda i: implies(i in depinsts(task), (not isnone(i._results_map)) and RESOK(unopt(i._results_map)))), result.value == EVAL(Inst_to_Task(task)))",
               'A-run/A-cache0: the value produced from correct dependency results (or loaded from an entry written by save for this task) is the reference value',
               serves=('A-run',))],
    raises={'BaseException': []},
    frame=['Inst.context'],
    note='structure (context before run, one run, save after, finally) is verified in contracts/c50_cache.py; the value clause is the assumption A-run on user code')

WAIT_YIELDS = [
    C("Inst_to_Task(value[0]) in old(INFLIGHT(self))", 'a yielded task was in flight when wait() was called'),
    C("Inst_to_Task(value[0]) not in INFLIGHT(self)", 'AT THE YIELD the task is no longer in flight (the generator may be abandoned here)', serves=('C14',)),
    C("implies(wr_is_meta(value[1]), (Inst_to_Task(value[0]) in RES(self)) and (RES(self)[Inst_to_Task(value[0])].meta == wr_meta(value[1])))", 'a successful task has its result in memory'),
    C("implies(not wr_is_meta(value[1]), Inst_to_Task(value[0]) not in RES(self))", 'a failed task has no result in memory', serves=('C10', 'C02', 'C17')),
    C("implies(old(RESOK(RES(self))), RESOK(RES(self)))", 'held results are the tasks\' own values', serves=('C01',)),
    C("INV(self)", 'object invariant holds whenever control is handed to the consumer', serves=('C14',)),
]

R.implements(f'{SR}.wait', f'{RN}.wait#yield', self_type='Obj[SerialRunner]',
    params={'timeout_seconds': 'Opt[Int]'}, returns='None',
    extra_requires=['INV(self)'],
    ensures=[C('INV(self)'), C("subset(INFLIGHT(self), old(INFLIGHT(self)))", 'wait only removes from the in-flight set')],
    yields=WAIT_YIELDS,
    rely=['self.results_map'],
    rely_ensures=[C("forall('Task', lambda k: implies(k in self.results_map, (k in old(self.results_map)) and (self.results_map[k] == old(self.results_map)[k])))", 'the consumer only removes results')],
    raises={'KeyboardInterrupt': []},
    at_call={'run_or_load_task': [C("implies(not task_submission.use_cache, HANDED(task, self.results_map))",
                                    'every dependency instance is handed the live results map before the task runs', serves=('C01', 'C02')),
                                  C("arg_filtered_context == filter_ctx(Inst_to_Task(task), self.context)",
                                    'the task is run with its own filter_context applied to the Lab context', serves=('C16',))]},
    cand_locals=('task', 'task_submission'),
    frame=['self.task_submissions', 'self.results_map', 'Inst._results_map', 'Inst.context', '@DIRS', '@FGOOD', '@FBAD', '@RUN_CALLS', 'CurProc.name', 'Handle.pending', '*.bufs'],
    candidates=["forall('Inst', lambda i: implies(i in __done__, i._results_map == some(self.results_map)))",
                "INV(self)", "self.results_map == old(self.results_map)",
                "Inst_to_Task(task) not in INFLIGHT(self)", "Inst_to_Task(task) in old(INFLIGHT(self))",
                "subset(INFLIGHT(self), old(INFLIGHT(self)))"])

# ------------------------------------------------------------------ ProcessRunner
R.func('res_of', ['Res'], 'Task')        # GHOST: the task whose execution/load produced this result object
R.func('fut_task', ['Fut'], 'Task')      # GHOST: the task a future was created for (fixed at creation: the thunk closes over it)
R.macros['RESOK'] = (['m'], "forall('Task', lambda d: implies(d in m, (res_of(m[d]) == d) and (m[d].value == EVAL(d))))")
R.contracts['labtech.runners.base:run_or_load_task'].ensures.append(
    C("res_of(result) == Inst_to_Task(task)", 'GHOST definition: the result object returned here is the result of this task', serves=('A-run',)))

R.contract(f'{PRK}._consume_log_queue', self_type='Obj[ProcessRunner]', params={}, frame=[], trusted=True,
    note='log forwarding; its delivery contract is C19\'s (contracts/c70_logging.py)')
R.contract(f'{PRK}._submit_task', abstract=True, self_type='Obj[ProcessRunner]',
    params={'executor': 'Obj[ProcessExecutor]', 'task': 'Inst', 'task_name': 'Str', 'use_cache': 'Bool',
            'process_event_queue': 'Queue', 'log_queue': 'Queue'}, returns='Fut',
    requires=['INV(executor)'],
    ensures=['INV(executor)',
             C("fut_task(result) == Inst_to_Task(task)", 'the future runs this task'),
             C("(result in PEND(executor)) or ((result.id in RUN(executor)) and (RUN(executor)[result.id][0] == result))", 'the new future is queued or running', serves=('C11', 'C01', 'C10')),
             C("(result not in old(PEND(executor))) and (result.id not in old(RUN(executor))) and (not result.done)", 'the future is new'),
             C("forall('Fut', lambda f: implies(f in old(PEND(executor)), (f in PEND(executor)) or ((f.id in RUN(executor)) and (RUN(executor)[f.id][0] == f))))", 'nothing queued is lost', serves=('C11',)),
             C("forall('Fid', lambda i: implies(i in old(RUN(executor)), (i in RUN(executor)) and (RUN(executor)[i] == old(RUN(executor))[i])))", 'running entries kept'),
             C("forall('Fut', lambda f: implies(f != result, f._state == old(f._state)))", 'other futures untouched'),
             ],
    frame=['executor._pending_future_to_thunk', 'executor._running_id_to_future_and_process', 'Fut._state', 'Fut._ex', 'Fut._result', '@STARTED'])

R.implements(f'{PRK}.submit_task', f'{RN}.submit_task', self_type='Obj[ProcessRunner]',
    params={'task': 'Inst', 'task_name': 'Str', 'use_cache': 'Bool'},
    extra_requires=['INV(self)', C("forall('Fut', lambda f: implies(f in self.future_to_task, fut_task(f) == Inst_to_Task(self.future_to_task[f])))", 'P4')],
    extra_ensures=['INV(self)', C("forall('Fut', lambda f: implies(f in self.future_to_task, fut_task(f) == Inst_to_Task(self.future_to_task[f])))", 'P4')],
    frame=['self.future_to_task', 'self.executor._pending_future_to_thunk', 'self.executor._running_id_to_future_and_process',
           'Fut._state', 'Fut._ex', 'Fut._result', '@STARTED'],
    assume_after={'_submit_task': [C("result not in self.future_to_task", 'A-fresh: a newly created Future object is not a key of any existing dict')]})

R.implements(f'{PRK}.cancel', f'{RN}.cancel', self_type='Obj[ProcessRunner]',
    extra_requires=['INV(self)'], extra_ensures=['INV(self)'],
    frame=['self.executor._pending_future_to_thunk', 'Fut._state'])
R.implements(f'{PRK}.stop', f'{RN}.stop', self_type='Obj[ProcessRunner]',
    extra_requires=['INV(self)'], extra_ensures=['INV(self)'],
    frame=['self.executor._running_id_to_future_and_process', 'Fut._state'])

R.implements(f'{PRK}.wait', f'{RN}.wait#yield', self_type='Obj[ProcessRunner]',
    params={'timeout_seconds': 'Opt[Int]'}, returns='None',
    extra_requires=['INV(self)', C("forall('Fut', lambda f: implies(f in self.future_to_task, fut_task(f) == Inst_to_Task(self.future_to_task[f])))", 'P4')],
    ensures=[C('INV(self)'), C("subset(INFLIGHT(self), old(INFLIGHT(self)))", 'wait only removes from the in-flight set'),
             C("forall('Fut', lambda f: implies(f in self.future_to_task, fut_task(f) == Inst_to_Task(self.future_to_task[f])))", 'P4'),
             C("forall('Fut', lambda f: implies(f in self.future_to_task, not f.done))", 'every future that was done is pruned: a finished task never stays in flight', serves=('C11', 'C14'))],
    yields=WAIT_YIELDS,
    rely=['self.results_map'],
    rely_ensures=[C("forall('Task', lambda k: implies(k in self.results_map, (k in old(self.results_map)) and (self.results_map[k] == old(self.results_map)[k])))", 'the consumer only removes results')],
    raises={},
    assume_after={'result': [C("(res_of(result) == fut_task(recv)) and (result.value == EVAL(fut_task(recv)))",
                               'A-proc: a future that finished without exception carries what _subprocess_func returned in the child for the task the future was created for, computed from the results handed over at submit/start')]},
    cand_locals=('done',),
    frame=['self.future_to_task', 'self.results_map', 'self.executor._pending_future_to_thunk',
           'self.executor._running_id_to_future_and_process', 'Fut._state', 'Fut._ex', 'Fut._result', '@STARTED', '@QEPOCH', '@DELIVERED', 'Queue.backlog'],
    candidates=[
        "INV(self.executor)",
        "forall('Fut', lambda f: implies(f in done, f in old(self.future_to_task)))",
        "forall('Fut', lambda f: implies(f in done, f.done))",
        "forall('Fut', lambda f: implies((f in old(self.future_to_task)) and (not f.done), f not in done))",
        "forall('Fut', lambda f: implies(f in self.future_to_task, (f in old(self.future_to_task)) and (self.future_to_task[f] == old(self.future_to_task)[f])))",
        "forall('Fut', lambda f: implies((f in old(self.future_to_task)) and (f not in __done__), f in self.future_to_task))",
        "forall('Fut', lambda f: implies(f in __done__, f not in self.future_to_task))",
        "forall('Fut', lambda f: implies(f in self.future_to_task, fut_task(f) == Inst_to_Task(self.future_to_task[f])))",
        "forall('Fut','Fut', lambda a, b: implies((a in self.future_to_task) and (b in self.future_to_task) and (Inst_to_Task(self.future_to_task[a]) == Inst_to_Task(self.future_to_task[b])), a == b))",
        "forall('Fut','Fut', lambda a, b: implies((a in old(self.future_to_task)) and (b in old(self.future_to_task)) and (Inst_to_Task(old(self.future_to_task)[a]) == Inst_to_Task(old(self.future_to_task)[b])), a == b))",
        "forall('Fut', lambda a: implies(a in self.future_to_task, Inst_to_Task(self.future_to_task[a]) not in self.results_map))",
        "forall('Fut', lambda f: implies(f in self.future_to_task, f.done or (f in PEND(self.executor)) or ((f.id in RUN(self.executor)) and (RUN(self.executor)[f.id][0] == f))))",
        "implies(old(RESOK(self.results_map)), RESOK(self.results_map))",
        "forall('Fut', lambda f: implies((f in self.future_to_task) and (f not in done), not f.done))",
        "forall('Fut', lambda f: implies((f in old(self.future_to_task)) and (f not in done), not f.done))",
    ])
