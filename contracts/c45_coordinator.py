# TaskCoordinator / Lab (labtech/lab.py:144-515) -- DESIGN 6.F
TC = 'labtech.lab:TaskCoordinator'
LAB = 'labtech.lab:Lab'
TS = 'labtech.lab:TaskState'
RN = 'labtech.types:Runner'

R.cls(LAB, fields={'continue_on_failure': 'Bool', 'context': 'Ctx', 'max_workers': 'Opt[Int]', '_storage': 'Storage',
                   'runner_backend': 'Obj[RunnerBackend]', 'notebook': 'Bool'})
R.cls('labtech.types:RunnerBackend', fields={})
R.cls(TC, fields={'lab': 'Obj[Lab]', 'bust_cache': 'Bool', 'disable_progress': 'Bool', 'disable_top': 'Bool'},
      ghost={'RUN_ALL': 'Set[Task]', 'RUN_FIN': 'Set[Task]', 'RUN_SUCC': 'Set[Task]', 'RUN_HELD': 'Set[Task]'})
R.contract('labtech.types:RunnerBackend.build_runner', abstract=True, self_type='Obj[RunnerBackend]',
    params={'context': 'Ctx', 'max_workers': 'Opt[Int]', 'storage': 'Storage'}, returns='Obj[Runner]',
    ensures=[C("empty(INFLIGHT(result)) and empty(RES(result))", 'a fresh runner holds nothing (results can only come from this run)', serves=())],
    frame=[])

R.record('Exc', immutable={'__cause__': 'Cause'})
R.func('Exc.__cause__', ['Exc'], 'Cause')
R.func('cause_is_remote_tb', ['Cause'], 'Bool')
R.func('Cause_to_Exc', ['Cause'], 'Exc')
R.func('exc_cause', ['Exc'], 'Exc')
R.func('exc_has_cause', ['Exc'], 'Bool')
R.isinstance_tests[('Cause', 'concurrent.futures.process._RemoteTraceback')] = 'cause_is_remote_tb(x)'

R.contract(f'{TC}.handle_failure',
    self_type='Obj[TaskCoordinator]', params={'ex': 'Exc', 'message': 'Str'},
    ensures=[C("self.lab.continue_on_failure", 'returns only when failures are tolerated', serves=())],
    raises={'LabError': [C("not self.lab.continue_on_failure", 'raises only when failures are not tolerated'),
                         C("exc_has_cause(exc) and ((exc_cause(exc) == ex) or (cause_is_remote_tb(ex.__cause__) and (exc_cause(exc) == Cause_to_Exc(ex.__cause__))))",
                           'the LabError is caused by the task\'s own exception', serves=('C10',))]},
    frame=[])

R.contract(f'{TS}.check_cyclic_dependences', self_type='Obj[TaskState]', params={}, trusted=True,
    raises={}, frame=[],
    note='cycle check: out of scope; under A-acyclic (dependencies are structurally nested, hence no cycle exists) it never raises')

R.globals['INTERRUPTED'] = 'Bool'     # GHOST (C14): a KeyboardInterrupt has been delivered to the calling thread
R.globals['INTERRUPTS'] = 'Int'
R.func('INTERRUPT_MODE', [], 'Bool')
R.macro('REQ', ['tasks'], '{Inst_to_Task(i) for i in tasks}')
R.classes[TS].ghost_init = {g: "typed_empty('Set[Task]')" for g in ('ALL', 'STARTED', 'FIN', 'SUCC')}
R.contract(f'{TS}.__init__',
    self_type='Obj[TaskState]', params={'coordinator': 'Obj[TaskCoordinator]', 'tasks': 'List[Inst]'},
    requires=[C("empty(self.ALL) and empty(self.STARTED) and empty(self.FIN) and empty(self.SUCC)", 'ghost sets of a new object are empty')],
    ensures=['INV(self)',
             C("empty(self.STARTED) and empty(self.FIN) and empty(self.SUCC)", 'nothing started'),
             C("forall('Inst', lambda i: implies(i in tasks, (Inst_to_Task(i) in self.ALL) and (i in INSTS(self)[Inst_to_Task(i)])))", 'every requested instance is planned and tracked', serves=('C01', 'C03', 'C10')),
             C("forall('Task','Task', lambda t, d: implies((t in self.ALL) and (not ucache(t)) and (d in deps(t)), d in DD(self)[t]))", 'every dependency of a task that will execute is an edge', serves=('C02', 'C01')),
             C("forall('Task','Task', lambda t, d: implies(d in DD(self)[t], not ucache(t)))", 'tasks served from the cache have no edges', serves=('C03',)),
             C("forall('Inst','Inst', lambda j, i: implies((j in self.processed_task_ids) and (not ucache(Inst_to_Task(j))) and (i in depinsts(j)), (i in self.processed_task_ids) and (i in INSTS(self)[Inst_to_Task(i)])))",
               'every task object inside the parameters of a planned, non-cached task object is tracked (and will be marked)', serves=('C03',)),
             ],
    raises={},
    frame=['self.*'])

# everything the coordinator relies on between two completions
COORD_INV = [
    C("INV(state)", 'L1'),
    C("forall('Task', lambda t: (t in INFLIGHT(runner)) == ((t in state.STARTED) and (t not in state.FIN)))", 'L2 link: in flight = started and unfinished'),
    C("forall('Task', lambda d: implies((d in state.SUCC) and (not empty(PT(state)[d])), d in RES(runner)))", 'L3a retention: a succeeded task with an unfinished direct dependent keeps its result', serves=('C17', 'C01', 'C02')),
    C("forall('Task', lambda d: implies(d in RES(runner), (d in state.SUCC) and (not empty(PT(state)[d]))))", 'L3b release: nothing else is held', serves=('C17',)),
    C("forall('Task', lambda d: implies(d in RES(runner), d in state.SUCC))", 'L3c held results belong to succeeded tasks', serves=('C01', 'C02', 'C10', 'C03')),
    C("RESOK(RES(runner))", 'L4 held results are the tasks\' own values', serves=('C01',)),
    C("forall('Task', lambda t: (t in task_results) == ((t in REQ(tasks)) and (t in state.SUCC)))", 'L5a collected = requested and succeeded', serves=('C01', 'C10')),
    C("forall('Task', lambda t: implies(t in task_results, task_results[t] == EVAL(t)))", 'L5b collected values are the reference values', serves=('C01',)),
    C("forall('Inst', lambda i: implies(i in tasks, Inst_to_Task(i) in state.ALL))", 'L6 requested tasks are planned'),
    C("forall('Task','Task', lambda t, d: implies((t in state.ALL) and (not ucache(t)) and (d in deps(t)), d in DD(state)[t]))", 'L7 edges cover spec-level dependencies', serves=('C02', 'C01')),
    C("forall('Task', lambda t: implies(t in state.SUCC, forall('Inst', lambda i: implies(i in INSTS(state)[t], not isnone(i.result_meta)))))", 'L8 every tracked instance of a succeeded task is marked', serves=('C03',)),
]

R.contract(f'{TC}.run',
    self_type='Obj[TaskCoordinator]', params={'tasks': 'List[Inst]'}, returns='Map[Task,Val]',
    display=('pbars', 'pbar', 'task_monitor', 'task_type_counts', 'task_type_max_digits', 'task_type_to_task_count',
             'task_number', 'redirected_loggers'),
    requires=[C("implies(INTERRUPT_MODE(), self.lab.continue_on_failure)", 'C14 precondition: failures are tolerated (a failure during the drain with continue_on_failure=False raises LabError by C10)')],
    ensures=[
        C("forall('Task', lambda t: (t in result) == ((t in REQ(tasks)) and (t in self.RUN_SUCC)))", 'keys = requested tasks that succeeded', serves=('C01', 'C10')),
        C("forall('Task', lambda t: implies(t in result, result[t] == EVAL(t)))", 'values are the reference values', serves=('C01',)),
        C("self.RUN_FIN == self.RUN_ALL", 'at a normal exit every planned task has finished (was submitted and yielded)', serves=('C10', 'C11', 'C03')),
        C("empty(self.RUN_HELD)", 'at a normal exit the runner holds no results at all', serves=('C17',)),
        C("forall('Inst', lambda i: implies(i in tasks, Inst_to_Task(i) in self.RUN_ALL))", 'requested tasks were planned'),
    ],
    ghost_at_exit={'self.RUN_ALL': 'state.ALL', 'self.RUN_FIN': 'state.FIN', 'self.RUN_SUCC': 'state.SUCC', 'self.RUN_HELD': 'dom(RES(runner))'},
    raises={'LabError': [C("not self.lab.continue_on_failure", 'a LabError leaves run only when failures are not tolerated', serves=('C10',))],
            'KeyboardInterrupt': []},
    frame=['Inst.result_meta'],
    locals={'task_results': 'Map[Task,Val]'},
    cand_locals=('state', 'runner', 'task_results', 'ready_tasks'),
    candidates=COORD_INV + [
        C("forall('Task', lambda t: implies(t in INFLIGHT(runner), (t in state.STARTED) and (t not in state.FIN)))", 'W2 weak link (holds at every interrupt instant): what is in flight was started and is unfinished', serves=('C14',)),
        C("forall('Task', lambda t: implies((t in ready_tasks) and (t not in __done__), (t in P(state)) and empty(PD(state)[t])))", 'R1 not-yet-started ready tasks stay pending and unblocked'),
        C("forall('Type', lambda y: implies(not isnone(maxpar(y)), card(ACT(state)[y]) + card(OFTYPE(ready_tasks - __done__, y)) <= unopt(maxpar(y))))", 'R2 per-type budget', serves=('C04',)),
        C("forall('Task', lambda t: implies((t in P(state)) and empty(PD(state)[t]) and (t not in ready_tasks), (not isnone(maxpar(ty(t)))) and (card(ACT(state)[ty(t)]) + card(OFTYPE(ready_tasks - __done__, ty(t))) >= unopt(maxpar(ty(t))))))", 'R3 skipped tasks are at their limit', serves=('C05',)),
        C("subset(__done__, ready_tasks)", 'R4'),
        C("forall('Task', lambda t: implies(t in __done__, t not in P(state)))", 'R5 started tasks have left the pending set'),
    ],
    interrupt_exit=[
        C("implies(INTERRUPTS == 1, empty(INFLIGHT(runner)))", 'after a single interrupt run only leaves once nothing is in flight any more: tasks that were executing were allowed to finish', serves=('C14',)),
    ],
    at_call={
        'wait': [C("forall('Task', lambda t: implies((t in P(state)) and empty(PD(state)[t]), (not isnone(maxpar(ty(t)))) and (card(ACT(state)[ty(t)]) >= unopt(maxpar(ty(t))))))",
                   'REST: when the coordinator waits, every unblocked pending task is held back only by its type limit', serves=('C05', 'C11'))],
        'submit_task': [C("not INTERRUPTED", 'no task is started after an interrupt', serves=('C14',)),
                        C("arg_use_cache or subset(deps(arg_task), state.FIN)", 'START: a task is handed to the runner only after all its dependencies finished', serves=('C02',))],
    },
    )

# ------------------------------------------------------------------ Lab
R.contract('labtech.lab:check_tasks', params={'tasks': 'List[Inst]'}, trusted=True, raises={}, frame=[],
    note='argument validation; the properties quantify over genuine task objects, for which it never raises')
R.contract(f'{TC}.__init__', self_type='Obj[TaskCoordinator]',
    params={'lab': 'Obj[Lab]', 'bust_cache': 'Bool', 'disable_progress': 'Bool', 'disable_top': 'Bool',
            'top_format': 'Str', 'top_sort': 'Str', 'top_n': 'Int'},
    binds_fields={'lab': 'lab'},
    ensures=["self.bust_cache == bust_cache"], frame=['self.*'], trusted=True,
    note='plain field assignments')

R.cls(LAB, fields=R.classes[LAB].fields, ghost={'LAST_SUCC': 'Set[Task]', 'LAST_ALL': 'Set[Task]', 'LAST_FIN': 'Set[Task]', 'LAST_HELD': 'Set[Task]'})
R.contract(f'{LAB}.run_tasks',
    self_type='Obj[Lab]',
    params={'tasks': 'List[Inst]', 'bust_cache': 'Bool', 'disable_progress': 'Bool', 'disable_top': 'Bool',
            'top_format': 'Str', 'top_sort': 'Str', 'top_n': 'Int'},
    defaults={'bust_cache': False, 'disable_progress': False, 'disable_top': False, 'top_format': '', 'top_sort': '', 'top_n': 10},
    returns='Map[Task,Val]',
    ensures=[
        C("forall('Task', lambda t: (t in result) == ((t in REQ(tasks)) and (t in self.LAST_SUCC)))", 'keys: exactly the requested tasks that succeeded (all of them when nothing fails)', serves=('C01', 'C10')),
        C("forall('Task', lambda t: implies(t in result, result[t] == EVAL(t)))", 'each value is the task\'s own reference value', serves=('C01',)),
        C("self.LAST_FIN == self.LAST_ALL", 'every planned task was run to completion or failure', serves=('C10', 'C11')),
        C("empty(self.LAST_HELD)", 'no in-memory results survive the call', serves=('C17',)),
    ],
    raises={'LabError': [C("not self.continue_on_failure", 'raises LabError only when failures are not tolerated', serves=('C10',))],
            'KeyboardInterrupt': []},
    serves=('C10',),
    ghost_at_exit={'self.LAST_SUCC': 'coordinator.RUN_SUCC', 'self.LAST_ALL': 'coordinator.RUN_ALL', 'self.LAST_FIN': 'coordinator.RUN_FIN', 'self.LAST_HELD': 'coordinator.RUN_HELD'},
    cand_locals=('coordinator',),
    frame=['Inst.result_meta'])
