# C20: the task-type structure behind the diagram (labtech/diagram.py) -- DESIGN 7/C20
#
# What is proved here is the part of C20 that is about STATE: `TaskStructure.task_type_to_rels` after
# `TaskStructure.build(tasks)` holds exactly the types of the task objects reachable through parameters at any
# nesting depth, exactly the (dependent type, parameter, dependency type) combinations that occur among them, and
# the "many" flag of a combination is set precisely when some occurrence sits in a parameter that is not itself a
# task.  The text renderer (f-strings, '\n'.join) is outside the translated fragment: bounded stand-in, replay/c20.py.
DG = 'labtech.diagram'
TST = f'{DG}:TaskStructure'

# ---- value records of diagram.py (frozen dataclasses: equality by fields)
R.record('RelKey', cls=f'{DG}:TaskRelKey', immutable={'from_param_name': 'FieldName', 'to_task_type': 'Type'}, ctor_kwargs=True, value=True)
R.record('RelInfo', cls=f'{DG}:TaskRelInfo', immutable={'multi_cardinality': 'Bool'}, ctor_kwargs=True, value=True)
R.func('RelKey.from_param_name', ['RelKey'], 'FieldName')
R.func('RelKey.to_task_type', ['RelKey'], 'Type')
R.func('RelInfo.multi_cardinality', ['RelInfo'], 'Bool')
R.func('relkey', ['FieldName', 'Type'], 'RelKey')           # SPEC constructor
R.axiom("forall('RelKey', lambda k: relkey(k.from_param_name, k.to_task_type) == k)",
        name='TRUSTED dataclass(frozen=True) equality: a TaskRelKey is determined by its two fields')
R.axiom("forall('FieldName','Type', lambda n, ty: (relkey(n, ty).from_param_name == n) and (relkey(n, ty).to_task_type == ty))",
        name='definition of the spec constructor relkey')
R.scope.update({'RelKey': 9, 'RelInfo': 2})       # relkey is a bijection FieldName x Type -> RelKey (3 x 3 in finite scope)

# ---- reachability through parameters: desc(w, i) <=> i is w or sits (at any depth) in the parameters of a descendant of w
R.func('desc', ['Inst', 'Inst'], 'Bool')
R.axiom("forall('Inst', lambda w: desc(w, w))", name='desc-refl: a task object is reachable from itself')
R.axiom("forall('Inst','Inst','Inst', lambda w, i, j: implies(desc(w, i) and (j in depinsts(i)), desc(w, j)))",
        name='desc-step: reachability is closed under "appears in a parameter of" (find_tasks_in_param over every field)')
R.axiom("forall('Inst','Inst', lambda w, i: implies(desc(w, i), (i == w) or exists('Inst', lambda j: (j in depinsts(w)) and desc(j, i))))",
        name='desc-unfold: whatever is reachable from w is w or reachable from something in a parameter of w '
             '(with A-acyclic this makes desc the LEAST such relation, i.e. reflexive-transitive reachability)')
R.macro('TY', ['i'], 'type_of_Task(Inst_to_Task(i))')
R.macro('REACH', ['tasks', 'i'], "exists('Inst', lambda w0: (w0 in tasks) and desc(w0, i))")
# an occurrence: task object i holds task object s somewhere inside its parameter f
R.macro('OCC', ['i', 'f', 's'], '(f in fields_of(i)) and (s in tasks_in(fieldval(i, f)))')
R.macro('RELS', ['ts'], 'ts.task_type_to_rels')
# object i is fully recorded in the structure
R.macro('COVERED', ['ts', 'i'],
        "(TY(i) in RELS(ts)) and forall('Field','Inst', lambda f, s: implies(OCC(i, f, s), "
        "(relkey(f.name, TY(s)) in RELS(ts)[TY(i)]) and implies(not is_PTask(fieldval(i, f)), RELS(ts)[TY(i)][relkey(f.name, TY(s))].multi_cardinality)))")

R.cls(TST, fields={'task_type_to_rels': 'Map[Type,Map[RelKey,RelInfo]]'})

R.contract(f'{TST}.__init__', self_type='Obj[TaskStructure]', params={},
    ensures=[C("forall('Type', lambda ty: ty not in RELS(self))", 'a new structure records nothing', serves=('C20',))],
    raises={}, frame=['self.*'])

R.contract(f'{TST}.add_task_type', self_type='Obj[TaskStructure]', params={'task_type': 'Type'},
    ensures=[C("task_type in RELS(self)", 'the type is recorded', serves=('C20',)),
             C("forall('Type', lambda ty: implies(ty != task_type, (ty in RELS(self)) == (ty in old(RELS(self)))))", 'no other type appears or disappears', serves=('C20',)),
             C("forall('Type', lambda ty: implies(ty in old(RELS(self)), RELS(self)[ty] == old(RELS(self))[ty]))", 'relationships already recorded (also this type\'s) are kept', serves=('C20',)),
             C("implies(task_type not in old(RELS(self)), forall('RelKey', lambda k: k not in RELS(self)[task_type]))", 'a newly recorded type starts without relationships', serves=('C20',))],
    raises={}, frame=['self.task_type_to_rels'])

R.contract(f'{TST}.add_relationship', self_type='Obj[TaskStructure]',
    params={'from_task_type': 'Type', 'from_param_name': 'FieldName', 'to_task_type': 'Type', 'multi_cardinality': 'Bool'},
    requires=[C("from_task_type in RELS(self)", 'the dependent type was recorded first (else KeyError)')],
    ensures=[C("forall('Type', lambda ty: (ty in RELS(self)) == (ty in old(RELS(self))))", 'the set of recorded types is unchanged', serves=('C20',)),
             C("relkey(from_param_name, to_task_type) in RELS(self)[from_task_type]", 'the relationship is recorded', serves=('C20',)),
             C("RELS(self)[from_task_type][relkey(from_param_name, to_task_type)].multi_cardinality == "
               "(multi_cardinality or ((relkey(from_param_name, to_task_type) in old(RELS(self))[from_task_type]) and "
               "old(RELS(self))[from_task_type][relkey(from_param_name, to_task_type)].multi_cardinality))",
               'OR-accumulation: "many" iff this observation or an earlier one of the same relationship was a collection', serves=('C20',)),
             C("forall('Type','RelKey', lambda ty, k: implies((ty in RELS(self)) and ((ty != from_task_type) or (k != relkey(from_param_name, to_task_type))), "
               "((k in RELS(self)[ty]) == (k in old(RELS(self))[ty])) and implies(k in RELS(self)[ty], RELS(self)[ty][k].multi_cardinality == old(RELS(self))[ty][k].multi_cardinality)))",
               'every other relationship of every type is untouched (presence and flag)', serves=('C20',))],
    raises={}, frame=['self.task_type_to_rels'])

BUILD_POST = [
    # completeness
    C("forall('Inst', lambda i: implies(REACH(tasks, i), COVERED(result, i)))",
      'COMPLETE: every task object reachable through parameters at any depth has its type recorded, and each of its (parameter, dependency type) '
      'occurrences is a recorded relationship, marked many if that parameter is not itself a task', serves=('C20',)),
    # soundness
    C("forall('Type', lambda ty: implies(ty in RELS(result), exists('Inst', lambda i: REACH(tasks, i) and (TY(i) == ty))))",
      'EXACT types: every recorded type is the type of a reachable task object', serves=('C20',)),
    C("forall('Type','RelKey', lambda ty, k: implies((ty in RELS(result)) and (k in RELS(result)[ty]), "
      "exists('Inst','Field','Inst', lambda i, f, s: REACH(tasks, i) and (TY(i) == ty) and OCC(i, f, s) and (f.name == k.from_param_name) and (TY(s) == k.to_task_type))))",
      'EXACT relationships: every recorded relationship occurs in a reachable task object', serves=('C20',)),
    C("forall('Type','RelKey', lambda ty, k: implies((ty in RELS(result)) and (k in RELS(result)[ty]) and RELS(result)[ty][k].multi_cardinality, "
      "exists('Inst','Field','Inst', lambda i, f, s: REACH(tasks, i) and (TY(i) == ty) and OCC(i, f, s) and (f.name == k.from_param_name) and (TY(s) == k.to_task_type) "
      "and (not is_PTask(fieldval(i, f))))))",
      'EXACT cardinality: a relationship is marked many only if some occurrence sits in a parameter that is not itself a task (a collection)', serves=('C20',)),
]

# loop invariant candidates: the same facts with the work list standing for "still to do"
def _inv(ts, wl):
    return [
        f"forall('Inst', lambda x: implies(x in {wl}, REACH(tasks, x)))",
        f"forall('Inst', lambda i: implies(REACH(tasks, i), COVERED({ts}, i) or exists('Inst', lambda x: (x in {wl}) and desc(x, i))))",
        f"forall('Type', lambda ty: implies(ty in RELS({ts}), exists('Inst', lambda i: REACH(tasks, i) and (TY(i) == ty))))",
        f"forall('Type','RelKey', lambda ty, k: implies((ty in RELS({ts})) and (k in RELS({ts})[ty]), "
        f"exists('Inst','Field','Inst', lambda i, f, s: REACH(tasks, i) and (TY(i) == ty) and OCC(i, f, s) and (f.name == k.from_param_name) and (TY(s) == k.to_task_type))))",
        f"forall('Type','RelKey', lambda ty, k: implies((ty in RELS({ts})) and (k in RELS({ts})[ty]) and RELS({ts})[ty][k].multi_cardinality, "
        f"exists('Inst','Field','Inst', lambda i, f, s: REACH(tasks, i) and (TY(i) == ty) and OCC(i, f, s) and (f.name == k.from_param_name) and (TY(s) == k.to_task_type) "
        f"and (not is_PTask(fieldval(i, f))))))",
    ]

BUILD_CANDS = _inv('task_structure', 'found_tasks') + [
    # while the fields of the popped `task` are being worked through
    "REACH(tasks, task)",
    "TY(task) in RELS(task_structure)",
    # every reachable object is covered, still queued, or is the current task / below one of its not yet finished fields
    "forall('Inst', lambda i: implies(REACH(tasks, i), COVERED(task_structure, i) or exists('Inst', lambda x: (x in found_tasks) and desc(x, i)) or (i == task) "
    "or exists('Field','Inst', lambda f, s: (f in fields_of(task)) and (f not in __done__) and (s in tasks_in(fieldval(task, f))) and desc(s, i))))",
    "forall('Inst', lambda i: implies(REACH(tasks, i), COVERED(task_structure, i) or exists('Inst', lambda x: (x in found_tasks) and desc(x, i)) or (i == task) "
    "or exists('Field','Inst', lambda f, s: (f in fields_of(task)) and (f not in __done_outer__) and (s in tasks_in(fieldval(task, f))) and desc(s, i))))",
    # the current task's finished fields are recorded
    "forall('Field','Inst', lambda f, s: implies((f in __done__) and OCC(task, f, s), (relkey(f.name, TY(s)) in RELS(task_structure)[TY(task)]) and "
    "implies(not is_PTask(fieldval(task, f)), RELS(task_structure)[TY(task)][relkey(f.name, TY(s))].multi_cardinality)))",
    "forall('Field','Inst', lambda f, s: implies((f in __done_outer__) and OCC(task, f, s), (relkey(f.name, TY(s)) in RELS(task_structure)[TY(task)]) and "
    "implies(not is_PTask(fieldval(task, f)), RELS(task_structure)[TY(task)][relkey(f.name, TY(s))].multi_cardinality)))",
    # inner loop over the sub-tasks of one field
    "field in fields_of(task)",
    "param_value == fieldval(task, field)",
    "sub_tasks == tasks_in(fieldval(task, field))",
    "forall('Inst', lambda s: implies(s in __done__, (relkey(field.name, TY(s)) in RELS(task_structure)[TY(task)]) and "
    "implies(not is_PTask(fieldval(task, field)), RELS(task_structure)[TY(task)][relkey(field.name, TY(s))].multi_cardinality)))",
    "forall('Inst', lambda s: implies(s in __done__, s in tasks_in(fieldval(task, field))))",
]

R.contract(f'{TST}.build', params={'tasks': 'List[Inst]'}, returns='Obj[TaskStructure]', classmethod_of='TaskStructure',
    ensures=BUILD_POST, raises={}, frame=[],
    candidates=BUILD_CANDS, cand_locals=('task_structure', 'found_tasks', 'task', 'field', 'param_value', 'sub_tasks'),
    note='breadth-first work list; termination (finite nesting, A-acyclic) is assumed, not proved')
