# results_map retention/release in both runners (labtech/runners/serial.py, process.py)
for key, cls in [('labtech.runners.serial:SerialRunner', 'SerialRunner'), ('labtech.runners.process:ProcessRunner', 'ProcessRunner')]:
    R.contract(f'{key}.remove_results',
        self_type=f'Obj[{cls}]', params={'tasks': 'Set[Task]'},
        ensures=[
            C("forall('Task', lambda k: implies(k not in tasks, (k in self.results_map) == (k in old(self.results_map))))",
              'retention: results of other tasks stay', serves=('C01', 'C02', 'C17')),
            C("forall('Task', lambda k: implies(k in self.results_map, self.results_map[k] == old(self.results_map)[k]))",
              'retained values unchanged', serves=('C01', 'C02', 'C17')),
            C("forall('Task', lambda k: implies(k in tasks, k not in self.results_map))",
              'release: every named task is removed', serves=('C17',)),
        ],
        frame=['self.results_map'],
        candidates=[
            "forall('Task', lambda k: (k in self.results_map) == ((k in old(self.results_map)) and (k not in __done__)))",
            "forall('Task', lambda k: implies(k in self.results_map, self.results_map[k] == old(self.results_map)[k]))",
        ])
    R.contract(f'{key}.get_result',
        self_type=f'Obj[{cls}]', params={'task': 'Task'}, returns='Res',
        requires=[],
        ensures=['result == self.results_map[task]'],
        raises={'KeyError': ['task not in self.results_map']},
        pure=False)

R.cls('labtech.runners.serial:SerialRunner',
    fields={'results_map': 'Map[Task,Res]', 'task_submissions': 'List[Sub]'})
R.cls('labtech.runners.process:ProcessRunner',
    fields={'results_map': 'Map[Task,Res]', 'future_to_task': 'Map[Fut,Task]'})
