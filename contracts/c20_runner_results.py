# (moved) results_map retention/release contracts now live in c40_runner.py as implementations of the abstract Runner contract
