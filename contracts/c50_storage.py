# storage.py: path confinement of LocalStorage (C18) and the abstract Storage contract -- DESIGN 6.E, 7/C18
ST = 'labtech.storage'
LS = f'{ST}:LocalStorage'

# ---- trusted path model (EUF): the only axiom the confinement argument needs is idempotence of resolve
R.func('pjoin', ['Path', 'Str'], 'Path')           # p / s
R.func('resolve', ['Path'], 'Path')                # Path.resolve(): canonical, symlink-free absolute path
R.func('parent', ['Path'], 'Path')                 # Path.parent (lexical)
R.func('path_exists', ['Path'], 'Bool')
R.func('SEP', [], 'Str')
R.func('ALTSEP', [], 'Opt[Str]')
R.const_exprs.update({'os.path.sep': 'SEP()', 'os.path.altsep': 'ALTSEP()'})
R.axiom("forall('Path', lambda p: resolve(resolve(p)) == resolve(p))", name='A-path: resolve is idempotent (its result is canonical)')
R.record('Path', pure={'parent': 'parent(self)'})
R.contract('trusted:Path', trusted=True, params={'p': 'Path'}, returns='Path', pure=True, defn='p',
    note='pathlib.Path(p) of a path (or of its string form) denotes the same, unresolved, path')
R.func('expanduser', ['Path'], 'Path')
R.contract('trusted:Path.expanduser', trusted=True, self_type='Path', params={}, returns='Path', pure=True, defn='expanduser(self)',
    note='Path.expanduser(): replaces a leading ~; the result is NOT made absolute or canonical')
R.alias('Path', 'expanduser', 'trusted:Path.expanduser')
R.contract('trusted:Path.resolve', trusted=True, self_type='Path', params={}, returns='Path', pure=True, defn='resolve(self)')
R.alias('Path', 'resolve', 'trusted:Path.resolve')

# every file-system primitive LocalStorage applies is logged in a ghost set, by kind
R.globals['FS_DIR_OPS'] = 'Set[Path]'      # GHOST: paths on which mkdir / exists / rmtree was applied
R.globals['FS_FILE_OPS'] = 'Set[Path]'     # GHOST: paths that were opened
R.globals['FS_ROOT_READS'] = 'Set[Path]'   # GHOST: directories that were listed (iterdir)
R.contract('trusted:Path.exists', trusted=True, self_type='Path', params={}, returns='Bool',
    ensures=["FS_DIR_OPS == sadd(old(FS_DIR_OPS), self)"], frame=['@FS_DIR_OPS'])
R.alias('Path', 'exists', 'trusted:Path.exists')
R.contract('trusted:Path.mkdir', trusted=True, self_type='Path', params={},
    ensures=["FS_DIR_OPS == sadd(old(FS_DIR_OPS), self)"],
    raises={'FileExistsError': ["FS_DIR_OPS == sadd(old(FS_DIR_OPS), self)"], 'OSError': ["FS_DIR_OPS == sadd(old(FS_DIR_OPS), self)"]},
    frame=['@FS_DIR_OPS'])
R.alias('Path', 'mkdir', 'trusted:Path.mkdir')
R.contract('trusted:Path.open', trusted=True, self_type='Path', params={'mode': 'Str'}, returns='Handle',
    ensures=["FS_FILE_OPS == sadd(old(FS_FILE_OPS), self)"],
    raises={'OSError': ["FS_FILE_OPS == sadd(old(FS_FILE_OPS), self)"], 'FileNotFoundError': ["FS_FILE_OPS == sadd(old(FS_FILE_OPS), self)"]},
    frame=['@FS_FILE_OPS'])
R.alias('Path', 'open', 'trusted:Path.open')
R.contract('trusted:shutil.rmtree', trusted=True, params={'path': 'Path'},
    ensures=["FS_DIR_OPS == sadd(old(FS_DIR_OPS), path)"], raises={'OSError': ["FS_DIR_OPS == sadd(old(FS_DIR_OPS), path)"]}, frame=['@FS_DIR_OPS'],
    note='removes the subtree of `path` without following links out of it')

R.cls(LS, fields={'_storage_path': 'Path'},
    invariant=[C("resolve(self._storage_path) == self._storage_path", 'ROOT: the storage root is fixed in canonical (absolute) form at construction, so later operations cannot be redirected by a change of working directory')])

CONFINED = [
    C("forall('Path', lambda p: implies((p in FS_DIR_OPS) and (p not in old(FS_DIR_OPS)), (resolve(p) == p) and (parent(p) == self._storage_path)))",
      'CONFINED-DIR: every directory primitive is applied to a canonical direct child of the storage root', serves=('C18',)),
    C("forall('Path', lambda p: implies((p in FS_FILE_OPS) and (p not in old(FS_FILE_OPS)), (resolve(p) == p) and (resolve(parent(p)) == parent(p)) and (parent(parent(p)) == self._storage_path)))",
      'CONFINED-FILE: every opened path is canonical and lies directly inside a canonical direct child of the storage root', serves=('C18',)),
]

R.contract(f'{ST}:validate_file_path_key',
    params={'key': 'Str', 'storage_path': 'Path'}, pylists=True,
    ensures=[C("parent(resolve(pjoin(storage_path, key))) == resolve(storage_path)", 'accepted keys resolve to a direct child of the storage root', serves=('C18',)),
             C("key != ''", 'accepted keys are non-empty'),
             C("(not contains(key, '.')) and (not contains(key, '/')) and (not contains(key, '\\\\')) and (not contains(key, SEP())) and implies(not isnone(ALTSEP()), not contains(key, unopt(ALTSEP())))",
               'accepted keys contain no dot and no separator', serves=('C07', 'C18'))],
    raises={'StorageError': []}, frame=[])

R.contract(f'{LS}._key_to_path', self_type='Obj[LocalStorage]', params={'key': 'Str'}, returns='Path',
    requires=['INV(self)'],
    ensures=[C("(resolve(result) == result) and (parent(result) == self._storage_path)", 'the key directory is a canonical direct child of the root', serves=('C18',)),
             C("result == resolve(pjoin(self._storage_path, key))", 'it is the directory the key names')],
    raises={'StorageError': []}, frame=[])
R.contract(f'{LS}.exists', self_type='Obj[LocalStorage]', params={'key': 'Str'}, returns='Bool',
    requires=['INV(self)'], ensures=CONFINED, raises={'StorageError': CONFINED}, frame=['@FS_DIR_OPS'])
R.contract(f'{LS}.file_handle', self_type='Obj[LocalStorage]', params={'key': 'Str', 'filename': 'Str', 'mode': 'Str'}, returns='Handle',
    defaults={'mode': 'r'},
    requires=['INV(self)'], ensures=CONFINED,
    raises={'StorageError': CONFINED, 'OSError': CONFINED, 'FileNotFoundError': CONFINED}, frame=['@FS_DIR_OPS', '@FS_FILE_OPS'])
R.contract(f'{LS}.delete', self_type='Obj[LocalStorage]', params={'key': 'Str'},
    requires=['INV(self)'], ensures=CONFINED, raises={'StorageError': CONFINED, 'OSError': CONFINED}, frame=['@FS_DIR_OPS'])

R.func('Path.name', ['Path'], 'Str')
R.record('Path', pure={'parent': 'parent(self)'}, immutable={'name': 'Str'})
R.func('is_dir_sample', ['Path'], 'Bool')
R.contract('trusted:Path.is_dir', trusted=True, self_type='Path', params={}, returns='Bool', pure=True, defn='is_dir_sample(self)',
    note='stat of a directory entry (follows a link for the type test only; nothing is opened)')
R.alias('Path', 'is_dir', 'trusted:Path.is_dir')
R.contract('trusted:Path.iterdir', trusted=True, self_type='Path', params={}, returns='Set[Path]',
    ensures=["FS_ROOT_READS == sadd(old(FS_ROOT_READS), self)", "forall('Path', lambda p: implies(p in result, parent(p) == self))"],
    raises={'OSError': []}, frame=['@FS_ROOT_READS'], note='lists the entries directly inside a directory')
R.alias('Path', 'iterdir', 'trusted:Path.iterdir')
R.isinstance_tests[('Path', 'str')] = 'False'
R.contract('trusted:Handle.write', trusted=True, self_type='Handle', params={'data': 'Str'}, frame=[], raises={'OSError': []})
R.alias('Handle', 'write', 'trusted:Handle.write')
R.file_sorts = ('Handle',)

R.contract(f'{LS}.find_keys', self_type='Obj[LocalStorage]', params={}, returns='List[Str]',
    requires=['INV(self)'],
    ensures=[C("(FS_DIR_OPS == old(FS_DIR_OPS)) and (FS_FILE_OPS == old(FS_FILE_OPS))", 'listing keys applies no directory or file primitive to anything but the root listing', serves=('C18',)),
             C("forall('Path', lambda p: implies((p in FS_ROOT_READS) and (p not in old(FS_ROOT_READS)), p == self._storage_path))", 'only the storage root itself is listed', serves=('C18',))],
    raises={'OSError': []}, frame=['@FS_ROOT_READS'])
R.contract(f'{LS}.__init__', self_type='Obj[LocalStorage]', params={'storage_dir': 'Path', 'with_gitignore': 'Bool'}, defaults={'with_gitignore': True},
    ensures=['INV(self)'], raises={'OSError': [], 'FileExistsError': [], 'FileNotFoundError': []},
    frame=['self._storage_path', '@FS_DIR_OPS', '@FS_FILE_OPS', '@FGOOD', '@FBAD', 'Handle.pending'],
    note='touches only the root directory itself and root/.gitignore (inside the storage directory)')
