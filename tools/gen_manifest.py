#!/usr/bin/env python3
"""Regenerates MANIFEST.json from pyvc/props.py + tools/claims.json (keeps it valid and consistent)."""
import json, os, sys
HERE = os.path.dirname(os.path.dirname(os.path.abspath(__file__)))
sys.path.insert(0, HERE)
from pyvc.props import PROPS
claims = json.load(open(os.path.join(HERE, 'tools', 'claims.json')))
props = [json.loads(l) for l in open(os.path.join(HERE, 'properties.jsonl'))]
checks, na = [], []
for p in props:
    pid = p['id']
    c = claims.get(pid, {})
    if pid in PROPS and c.get('claimed'):
        checks.append({
            'property_id': pid,
            'quick_cmd': f'./check {pid} --tier quick',
            'thorough_cmd': f'./check {pid} --tier thorough',
            'evidence_file': f'/verif/evidence/{pid}.json',
            'replay_cmd_template': f'./check {pid} --replay {{path}}',
            'engine': 'pyvc',
            'level_claimed': {'category': c['category'], 'text': c['text'], 'design_ref': PROPS[pid].get('design_ref', '')},
            'level_note': c['note'],
            'technique': c.get('technique', 'contract-based deductive verification: VCs generated from the real Python source (own ast->SMT generator), discharged by z3 (cvc5 on what z3 leaves open; in the thorough tier cvc5 re-decides every z3 proof); a bounded native stand-in with an independent oracle runs beside it on every run and is never counted as proved'),
        })
    else:
        na.append({'property_id': pid, 'reason': c.get('na_reason', 'check not built yet (DESIGN.md section 11 milestone pending); not a statement that the technique cannot apply')})
m = {
    'version': 1,
    'setup_cmd': './setup.sh',
    'hooks': {'guard': 'LABTECH_VERIF', 'enable': 'no hooks: PyVC reads /repo source text; nothing in /repo is guarded or instrumented',
              'baseline_off_cmd': 'cd /repo && /venv/bin/python -m pytest -ra -q -p no:cacheprovider --timeout=900 --continue-on-collection-errors',
              'source_commits': [], 'add_only': True},
    'engines': [{'name': 'pyvc', 'path': 'pyvc/', 'serves_properties': [c['property_id'] for c in checks],
                 'kind_free_text': 'verification-condition generator over the real Python source (ast -> SMT), modular contracts in contracts/*.py, Houdini loop invariants, z3 + cvc5 back ends; finite-scope refutation, native replay of counter-models and bounded stand-ins (replay/)'}],
    'checks': checks,
    'notes': 'See DESIGN.md. Genuine defects repaired in /repo are `fix:` commits listed in known_findings.jsonl.',
    'not_applicable': na,
}
json.dump(m, open(os.path.join(HERE, 'MANIFEST.json'), 'w'), indent=1)
import jsonschema
jsonschema.validate(m, json.load(open('/root/.vp/MANIFEST.schema.json')))
print('MANIFEST ok:', len(checks), 'claimed,', len(na), 'not applicable')
