#!/bin/bash
# usage: confirm_mutant.sh <patch.diff> <demo.py> -> prints CONFIRMED / REJECTED with reasons.
# Uses a scratch worktree of /repo HEAD under $TMPDIR (default /tmp), removed afterwards.
PATCH=$(readlink -f "$1"); DEMO=$(readlink -f "$2")
WT=$(mktemp -d ${TMPDIR:-/tmp}/labtech-confirm-XXXXXX); rmdir "$WT"
git -C /repo worktree add -q "$WT" HEAD || exit 3
trap 'git -C /repo worktree remove --force "$WT" >/dev/null 2>&1; rm -rf "$WT"' EXIT
cd "$WT"
ok=1
PYTHONPATH="$WT" timeout 300 /venv/bin/python "$DEMO" >/tmp/confirm.$$.clean 2>&1; c=$?
[ $c -eq 0 ] || { echo "REJECT: demo fails on clean tree (exit $c)"; tail -5 /tmp/confirm.$$.clean; ok=0; }
git apply --3way "$PATCH" 2>/tmp/confirm.$$.apply || git apply "$PATCH" || { echo "REJECT: patch does not apply"; cat /tmp/confirm.$$.apply; ok=0; }
/venv/bin/python -m pytest -q -p no:cacheprovider --timeout=900 -x >/tmp/confirm.$$.tests 2>&1; t=$?
tail -1 /tmp/confirm.$$.tests
[ $t -eq 0 ] || { echo "REJECT: test suite fails with patch"; ok=0; }
PYTHONPATH="$WT" timeout 300 /venv/bin/python "$DEMO" >/tmp/confirm.$$.mut 2>&1; m=$?
[ $m -ne 0 ] || { echo "REJECT: demo passes with patch"; ok=0; }
echo "demo clean exit=$c, patched exit=$m, tests exit=$t"
rm -f /tmp/confirm.$$.*
[ $ok -eq 1 ] && echo CONFIRMED || echo REJECTED
