#!/bin/bash
# run_all_thorough.sh [props...]: thorough tier of every check (three at a time), one summary line per property
cd "$(dirname "$0")/.."
PROPSL="${@:-C01 C02 C03 C04 C05 C06 C07 C08 C09 C10 C11 C12 C13 C14 C15 C16 C17 C18 C19 C20}"
mkdir -p out/logs
run() { s=$(date +%s); ./check $1 --tier thorough > out/logs/$1.thorough.log 2>&1; echo "$1 exit=$? $(( $(date +%s) - s ))s $(tail -1 out/logs/$1.thorough.log)"; }
export -f run
printf "%s\n" $PROPSL | xargs -P 3 -I{} bash -c 'run {}'
