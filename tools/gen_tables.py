#!/usr/bin/env python3
"""Markdown tables for DESIGN.md section 13 from evidence/*.json and seeded/RESULTS.json (printed to stdout)."""
import glob, json, os, sys
HERE = os.path.dirname(os.path.dirname(os.path.abspath(__file__)))
claims = json.load(open(os.path.join(HERE, 'tools', 'claims.json')))
which = sys.argv[1] if len(sys.argv) > 1 else 'props'
if which == 'props':
    print('| id | claimed level | functions under contract | obl. | outside | known findings | bounded part (stand-in) | solver s | wall s |')
    print('|---|---|---|---|---|---|---|---|---|')
    for f in sorted(glob.glob(os.path.join(HERE, 'evidence', 'C*.json'))):
        e = json.load(open(f))
        c = e['coverage']
        b = '; '.join(f"{x.get('name')} ({x.get('bound', '')})" for x in c.get('bounded_items', []) or []) or '–'
        print(f"| {e['property_id']} | {claims[e['property_id']]['category']} | {len(c.get('functions_under_contract', []))} | {c['discharged']}/{c['obligations']} | "
              f"{len(c.get('outside_fragment') or {})} | {len(c.get('known_findings') or [])} | {b[:160]} | {c.get('solver_time_s', '')} | {e.get('wall_s', '')} |")
else:
    res = json.load(open(os.path.join(HERE, 'seeded', 'RESULTS.json')))
    print('| change | property | caught | by (first failed obligation) | needs to manifest |')
    print('|---|---|---|---|---|')
    for name in sorted(res):
        r = res[name]
        mp = os.path.join(HERE, 'seeded', name, 'meta.json')
        needs = json.load(open(mp))['needs_to_manifest'][:140] if os.path.exists(mp) else ''
        caught = r.get('exit') == 1 and any(v.startswith('VIOLATION') for v in r.get('violations', []))
        if r.get('kind') == 'harmless':
            caught_s = 'stays green' if r.get('exit') == 0 else '**FALSE ALARM**'
        else:
            caught_s = 'yes' if caught else '**no**'
        first = next((v.strip().replace('failed obligation: ', '') for v in r.get('violations', []) if 'failed obligation' in v), '')
        print(f"| {name} | {r.get('prop')} | {caught_s} | {first[:150].replace('|', '/')} | {needs.replace('|', '/')} |")
