#!/usr/bin/env python3
"""Refresh the generated tables of DESIGN.md section 13 (between <!-- TABLE:x --> markers) from evidence/ and seeded/RESULTS.json."""
import os, re, subprocess, sys
HERE = os.path.dirname(os.path.dirname(os.path.abspath(__file__)))
p = os.path.join(HERE, 'DESIGN.md')
s = open(p).read()
for which in ('props', 'seeded'):
    if which == 'seeded' and not os.path.exists(os.path.join(HERE, 'seeded', 'RESULTS.json')):
        continue
    tab = subprocess.run([sys.executable, os.path.join(HERE, 'tools', 'gen_tables.py'), which], capture_output=True, text=True).stdout.strip()
    s = re.sub(rf'<!-- TABLE:{which} -->.*?<!-- /TABLE:{which} -->', lambda m: f'<!-- TABLE:{which} -->\n{tab}\n<!-- /TABLE:{which} -->', s, flags=re.S)
open(p, 'w').write(s)
