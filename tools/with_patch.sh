#!/bin/bash
# usage: with_patch.sh <patch.diff> <check args...>   e.g. with_patch.sh seeded/C17-x/patch.diff C17
# Applies the patch to a scratch worktree of /repo HEAD (outside /repo and /verif), runs ./check ... --repo <wt>, removes it.
PATCH=$(readlink -f "$1"); shift
WT=$(mktemp -d ${TMPDIR:-/tmp}/labtech-verif-XXXXXX); rmdir "$WT"
git -C /repo worktree add -q "$WT" HEAD || exit 3
trap 'git -C /repo worktree remove --force "$WT" >/dev/null 2>&1; rm -rf "$WT"' EXIT
( cd "$WT" && (git apply "$PATCH" 2>/dev/null || git apply --3way "$PATCH" 2>/dev/null || patch -p1 -s < "$PATCH") ) || { echo "PATCH DOES NOT APPLY"; exit 4; }
cd "$(dirname "$0")/.." && ./check "$@" --repo "$WT" --no-evidence
