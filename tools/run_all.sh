#!/bin/bash
# run_all.sh [--update-baseline] [props...]: runs checks (two at a time), prints one summary line per property
cd "$(dirname "$0")/.."
UPD=""; [ "$1" == "--update-baseline" ] && { UPD="--update-baseline"; shift; }
PROPSL="${@:-C01 C02 C03 C04 C05 C10 C11 C14 C16 C17}"
mkdir -p out/logs
run() { ./check $1 $UPD > out/logs/$1.log 2>&1; echo "$1 exit=$? $(tail -1 out/logs/$1.log)"; }
export -f run; export UPD
printf "%s\n" $PROPSL | xargs -P 3 -I{} bash -c 'run {}'
