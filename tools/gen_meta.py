#!/usr/bin/env python3
"""Write seeded/<id>/meta.json for every kept seeded change: which property it breaks, what it needs to manifest
(taken from the author's notes.md), how it was confirmed, and what ./check reported for it (seeded/RESULTS.json,
written by tools/run_seeded.py).  Re-run after tools/run_seeded.py."""
import glob, json, os, re
HERE = os.path.dirname(os.path.dirname(os.path.abspath(__file__)))
res_path = os.path.join(HERE, 'seeded', 'RESULTS.json')
results = json.load(open(res_path)) if os.path.exists(res_path) else {}


def section(text, *names):
    for nm in names:
        m = re.search(r'(?:^|\n)[-*\s]*\**' + nm + r'\**\s*(?:\([^)]*\))?\s*:?\**:?\s*(.*?)(?=\n\s*\n|\n[-*]\s|\n\*\*|\Z)', text, re.S | re.I)
        if m and m.group(1).strip():
            return ' '.join(m.group(1).split())
    return ''


OVERRIDE_NEEDS = {
    'C03-m1': 'All three of: an earlier run has cached a task C that has dependencies; a later run_tasks call reaches C through two or more distinct, equal instances (a single shared object is deduplicated by id and is safe); C\'s dependency is not otherwise needed.',
    'C03-m2': 'Equal-but-distinct instances of one task at different depths of the DAG, with the shallower one inserted first, e.g. [Leaf(1), Mid(leaf=Leaf(1))] or [Side(leaf=Leaf(2)), Top(mid=Mid(leaf=Leaf(2)))] (order dependent). Same-depth duplicates are unaffected.',
    'C08-m1': 'A single uncache_tasks call with >= 2 tasks in which a not-cached task precedes a cached one (e.g. uncache_tasks([never_run, cached]), or a cache=None task listed before a cached one). All-cached lists, uncached-last lists and single-task calls behave correctly.',
    'C18-m1': 'A pre-existing entry directly inside a key directory whose name is a plain separator-free filename and which is a symlink (live or dangling) to a path outside the key directory; file_handle(key, that_name, mode=anything) must then be called. All string-only adversarial inputs behave as before.',
}


def needs(notes, name=''):
    if name in OVERRIDE_NEEDS:
        return OVERRIDE_NEEDS[name]
    m2 = re.search(r'\*\*Needed to manifest\*\*[:.]?\s*(.*?)(?=\n\s*\**Why (?:existing|the) tests|\Z)', notes, re.S | re.I)
    if m2 and m2.group(1).strip():
        return ' '.join(m2.group(1).split())[:1500]
    m = re.search(r'(?:what\s+(?:is|it)\s+)?need(?:s|ed)?(?:\s+to\s+manifest)?\s*[.:*]*\**\s*[:.]?\s*(.*?)(?=\n\s*\n\**(?:Why|Demo|How)|\n[-*]\s*\**(?:Why|Demo)|\n\*\*Why|\nWhy |\Z)', notes, re.S | re.I)
    return ' '.join(m.group(1).split())[:1500] if m else ''


for d in sorted(glob.glob(os.path.join(HERE, 'seeded', 'C[0-9][0-9]-*'))):
    name = os.path.basename(d)
    prop = name.split('-')[0]
    notes = open(os.path.join(d, 'notes.md')).read() if os.path.exists(os.path.join(d, 'notes.md')) else ''
    title = notes.strip().splitlines()[0].lstrip('# ').strip() if notes.strip() else ''
    if not title or title.startswith('**') or title.lower().startswith('change'):
        title = (section(notes, 'Change') or title).split('. ')[0][:160]
    r = results.get(name, {})
    caught = r.get('exit') == 1 and any(v.startswith('VIOLATION') for v in r.get('violations', []))
    meta = dict(
        id=name, breaks_property=prop, title=title,
        change=section(notes, 'Change'),
        why_it_breaks=section(notes, 'Why it breaks the property', 'Why it breaks'),
        needs_to_manifest=needs(notes, name),
        why_tests_miss=section(notes, 'Why existing tests miss it', 'Why the tests do not notice', 'Why the tests miss it', 'Why tests miss it'),
        author='fresh sub-agent given only the property text and its own scratch worktree of /repo',
        files=dict(patch='patch.diff', demonstration='demo.py', notes='notes.md'),
        confirmed_by=('tools/confirm_mutant.sh patch.diff demo.py in a scratch worktree of /repo HEAD: demo exits 0 on the clean tree, patch applies, '
                      'the pinned test suite passes with the patch (103 passed), demo exits non-zero with the patch'),
        what_i_ran=f'tools/run_seeded.py {name}  (= ./check {prop} --repo <scratch worktree with the patch> --no-evidence)',
        check_result=dict(caught=caught, exit=r.get('exit'), failed_obligations=[v.strip() for v in r.get('violations', []) if 'failed obligation' in v],
                          undecided=r.get('undecided', []), summary=r.get('summary', '')) if r else 'not run yet',
    )
    json.dump(meta, open(os.path.join(d, 'meta.json'), 'w'), indent=1)
    print(name, 'caught' if caught else ('MISSED' if r else 'not run'), '|', meta['needs_to_manifest'][:90])
