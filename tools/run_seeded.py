#!/usr/bin/env python3
"""Apply each seeded change (seeded/<prop>-<n>/patch.diff, mutants/*.diff) to a scratch worktree of /repo HEAD and run
the property's check against it.  Writes out/seeded_results.json: which checks catch which changes."""
import glob, json, os, re, subprocess, sys, tempfile
HERE = os.path.dirname(os.path.dirname(os.path.abspath(__file__)))
sel = sys.argv[1:]
items = []
for d in sorted(glob.glob(os.path.join(HERE, 'seeded', '*'))):
    if os.path.exists(os.path.join(d, 'patch.diff')):
        name = os.path.basename(d)
        items.append((name, name.split('-')[0], os.path.join(d, 'patch.diff'), 'break'))
for f in sorted(glob.glob(os.path.join(HERE, 'mutants', '*.diff'))):
    name = os.path.basename(f)[:-5]
    items.append((name, name.split('-')[0], f, 'harmless' if '.harmless' in name else 'break'))
res_path = os.path.join(HERE, 'seeded', 'RESULTS.json')
results = json.load(open(res_path)) if os.path.exists(res_path) else {}
from concurrent.futures import ThreadPoolExecutor
def run(item):
    name, prop, patch, kind = item
    if sel and not any(s in name for s in sel):
        return None
    wt = tempfile.mkdtemp(prefix='labtech-verif-'); os.rmdir(wt)
    subprocess.check_call(['git', '-C', '/repo', 'worktree', 'add', '-q', wt, 'HEAD'])
    try:
        ok = subprocess.call(['git', 'apply', '--3way', patch], cwd=wt, stdout=subprocess.DEVNULL, stderr=subprocess.DEVNULL) == 0 \
            or subprocess.call(['git', 'apply', patch], cwd=wt) == 0
        if not ok:
            return name, dict(prop=prop, kind=kind, applied=False)
        try:
            cp = subprocess.run([os.path.join(HERE, 'check'), prop, '--repo', wt, '--no-evidence'], capture_output=True, text=True, cwd=HERE, timeout=2700,
                                start_new_session=True)
        except subprocess.TimeoutExpired:
            subprocess.call(['pkill', '-9', '-f', wt])
            return name, dict(prop=prop, kind=kind, applied=True, exit=-1, violations=[], undecided=[], summary='check did not finish within 45 min')
        lines = cp.stdout.strip().splitlines()
        return name, dict(prop=prop, kind=kind, applied=True, exit=cp.returncode,
                          violations=[l for l in lines if l.startswith('VIOLATION') or l.strip().startswith('failed obligation')][:8],
                          undecided=[l for l in lines if l.startswith('UNDECIDED') or l.startswith('OUTSIDE') or l.startswith('STAND-IN')][:6],
                          summary=lines[-1] if lines else '')
    finally:
        subprocess.call(['git', '-C', '/repo', 'worktree', 'remove', '--force', wt])
from concurrent.futures import as_completed
os.makedirs(os.path.dirname(res_path), exist_ok=True)
with ThreadPoolExecutor(3) as ex:
    futs = [ex.submit(run, it) for it in items]
    for fu in as_completed(futs):
        r = fu.result()
        if r:
            results[r[0]] = r[1]
            print(r[0], r[1].get('exit'), r[1].get('summary', '')[:120], flush=True)
            for v in r[1].get('violations', [])[:4]:
                print('     ', v[:200])
            json.dump(results, open(res_path, 'w'), indent=1)
json.dump(results, open(res_path, 'w'), indent=1)
