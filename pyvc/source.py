"""Mechanical extraction of the functions under contract from /repo's *current* source text.

Nothing is hand-copied: every run re-parses the files.  Extraction reports exactly what it drops:
docstrings, type annotations, `logger.<level>(...)` statements, and statements that only write
names of the declared display set (progress bars, monitor), after checking they touch no tracked name.
"""
from __future__ import annotations

import ast
import copy
import hashlib
import os

LOG_LEVELS = {'debug', 'info', 'warning', 'error', 'critical', 'exception'}


class SourceIndex:
    def __init__(self, repo_root: str):
        self.root = repo_root
        self._mods = {}

    def module_path(self, module: str) -> str:
        return os.path.join(self.root, *module.split('.')) + '.py'

    def module_ast(self, module: str):
        if module not in self._mods:
            p = self.module_path(module)
            src = open(p).read()
            self._mods[module] = (ast.parse(src, p), src)
        return self._mods[module]

    def find(self, key: str):
        """key = module:qualname -> (FunctionDef node, source segment, first line, last line)."""
        module, qual = key.split(':')[:2]
        tree, src = self.module_ast(module)
        node = tree
        for part in qual.split('.'):
            nxt = None
            for child in ast.iter_child_nodes(node):
                if isinstance(child, (ast.FunctionDef, ast.ClassDef, ast.AsyncFunctionDef)) and child.name == part:
                    nxt = child
            if nxt is None:
                # look one level into compound statements (functions defined inside functions)
                for child in ast.walk(node):
                    if isinstance(child, (ast.FunctionDef, ast.ClassDef)) and child.name == part and child is not node:
                        nxt = child
                        break
            if nxt is None:
                raise KeyError(f'{key}: {part!r} not found in {self.module_path(module)}')
            node = nxt
        seg = ast.get_source_segment(src, node) or ''
        return node, seg, node.lineno, node.end_lineno

    def class_node(self, key: str):
        module, qual = key.split(':')
        tree, _ = self.module_ast(module)
        for child in ast.walk(tree):
            if isinstance(child, ast.ClassDef) and child.name == qual:
                return child
        raise KeyError(key)


def sha(text: str) -> str:
    return hashlib.sha256(text.encode()).hexdigest()[:16]


def _names_written(stmt):
    out = set()
    for n in ast.walk(stmt):
        if isinstance(n, ast.Name) and isinstance(n.ctx, (ast.Store, ast.Del)):
            out.add(n.id)
    return out


def _root_name(e):
    while isinstance(e, (ast.Attribute, ast.Subscript, ast.Call)):
        e = e.func if isinstance(e, ast.Call) else e.value
    return e.id if isinstance(e, ast.Name) else None


def is_logger_call(stmt) -> bool:
    return (isinstance(stmt, ast.Expr) and isinstance(stmt.value, ast.Call)
            and isinstance(stmt.value.func, ast.Attribute) and stmt.value.func.attr in LOG_LEVELS
            and isinstance(stmt.value.func.value, ast.Name) and stmt.value.func.value.id == 'logger')


def is_display_stmt(stmt, display: set) -> bool:
    """True iff the statement only writes display names and every call in it has a display receiver
    (or is a logger call / a pure builtin over display names)."""
    if not display:
        return False
    if isinstance(stmt, (ast.Assign, ast.AugAssign, ast.AnnAssign)):
        targets = stmt.targets if isinstance(stmt, ast.Assign) else [stmt.target]
        roots = {_root_name(t) for t in targets}
        if not roots <= display:
            return False
        return True
    if isinstance(stmt, ast.Expr) and isinstance(stmt.value, ast.Call):
        r = _root_name(stmt.value.func)
        return r in display
    if isinstance(stmt, ast.If):
        # `if task_monitor is not None: task_monitor.update()`
        test_names = {n.id for n in ast.walk(stmt.test) if isinstance(n, ast.Name)}
        if test_names and test_names <= display:
            return all(is_display_stmt(s, display) for s in stmt.body + stmt.orelse)
        return False
    if isinstance(stmt, ast.For):
        # `for pbar in pbars.values(): pbar.close()`
        if _root_name(stmt.iter) in display:
            tgt = {n.id for n in ast.walk(stmt.target) if isinstance(n, ast.Name)}
            return all(is_display_stmt(s, display | tgt) for s in stmt.body)
        return False
    return False


class Extractor:
    """Returns a cleaned deep copy of the function body plus the drop report."""

    def __init__(self, display=()):
        self.display = set(display)
        self.dropped = []

    def clean(self, fn: ast.FunctionDef):
        fn = copy.deepcopy(fn)
        fn.body = self._block(fn.body, top=True)
        return fn

    def _block(self, stmts, top=False):
        out = []
        for i, s in enumerate(stmts):
            if (i == 0 and isinstance(s, ast.Expr) and isinstance(s.value, ast.Constant)
                    and isinstance(s.value.value, str)):
                self.dropped.append((s.lineno, 'docstring'))
                continue
            if is_logger_call(s):
                self.dropped.append((s.lineno, 'logger call: ' + ast.unparse(s)[:80]))
                continue
            if is_display_stmt(s, self.display):
                self.dropped.append((s.lineno, 'display: ' + ast.unparse(s).split('\n')[0][:80]))
                continue
            for fld in ('body', 'orelse', 'finalbody'):
                if hasattr(s, fld) and isinstance(getattr(s, fld), list) and not isinstance(s, (ast.FunctionDef, ast.ClassDef)):
                    setattr(s, fld, self._block(getattr(s, fld)) or ([ast.Pass()] if fld == 'body' else []))
            if isinstance(s, ast.FunctionDef):
                s.body = self._block(s.body) or [ast.Pass()]
            if isinstance(s, ast.Try):
                for h in s.handlers:
                    h.body = self._block(h.body) or [ast.Pass()]
            if isinstance(s, ast.With):
                pass
            out.append(s)
        return out
