"""PyVC symbolic executor: real Python function bodies -> named SMT obligations.

Modular: a call is replaced by the callee's contract (never its body), a loop by its invariant
(candidates pruned by Houdini), a recursive call by the function's own contract.
The same expression evaluator compiles code expressions and contract clauses.
"""
from __future__ import annotations

import ast
import itertools
import os
import sys
import time
from dataclasses import dataclass, field

import z3

from .contract import Clause, Contract, Registry
from .ctx import Ctx
from .ty import BOOL, DSET, INT, MAP, NONE, OBJ, OPT, SET, STR, SV, T, TUP, U, parse_type


def parse_spec(text: str):
    """Spec clause text -> expression AST (multi-line texts are allowed)."""
    return ast.parse('(' + text.strip() + ')', mode='eval').body


class Unsupported(Exception):
    """The function text left the translated fragment (DESIGN 2.9): undecided, never a violation."""


class SpecError(Exception):
    """A contract clause could not be compiled at this program point (e.g. unbound name)."""


# --------------------------------------------------------------------------- state
class State:
    def __init__(self, frames=None, heap=None, pc=None, old=None):
        self.frames = frames if frames is not None else [{}]   # list of dicts, innermost last
        self.frame_locals = [None]                            # per frame: set of local names (None = all)
        self.heap = heap if heap is not None else {}
        self.pc = pc if pc is not None else []
        self.old = old if old is not None else {}
        self.ghost_log = []

    def fork(self):
        s = State([dict(f) for f in self.frames], dict(self.heap), list(self.pc), self.old)
        s.frame_locals = list(self.frame_locals)
        s.ghost_log = list(self.ghost_log)
        for k in ('trail', 'current_exc', 'ki', 'ki_points', 'ki_exc', 'done_stack', 'fault_trail', 'via_loop'):
            if hasattr(self, k):
                setattr(s, k, getattr(self, k))
        return s

    def get(self, name):
        for f in reversed(self.frames):
            if name in f:
                return f[name]
        raise KeyError(name)

    def has(self, name):
        return any(name in f for f in self.frames)

    def set(self, name, sv):
        # innermost frame owns names it declares local; otherwise write where the name lives
        loc = self.frame_locals[-1]
        if loc is None or name in loc or len(self.frames) == 1:
            self.frames[-1][name] = sv
            return
        for f in reversed(self.frames[:-1]):
            if name in f:
                f[name] = sv
                return
        self.frames[-1][name] = sv

    def assume(self, f):
        if z3.is_true(f):
            return
        self.pc.append(f)


@dataclass
class Obligation:
    name: str
    kind: str
    fkey: str
    serves: tuple
    status: str = 'open'          # discharged | refuted | open
    solver: str = ''
    time_s: float = 0.0
    line: int = 0
    model: str = ''
    instances: int = 0
    detail: str = ''


@dataclass
class Outcome:
    kind: str                     # next return break continue raise
    st: State
    val: object = None            # return value SV | exception info dict


# --------------------------------------------------------------------------- engine
class Engine:
    def __init__(self, R: Registry, ctx: Ctx, index, *, prop=None, timeout_ms=10000, houdini=None,
                 check_vcs=True):
        self.R = R
        self.ctx = ctx
        self.index = index
        self.prop = prop                  # property id used for clause slicing (None = all clauses)
        self.timeout_ms = timeout_ms
        self.obligations: dict[str, Obligation] = {}
        self.houdini = houdini if houdini is not None else {}   # loop id -> surviving candidate labels
        self.houdini_fixed = houdini is not None and not ctx.finite
        self.trial = 0                    # >0: inside a Houdini trial pass (VCs assumed, not checked)
        self.skip_names = set()
        self.interrupts = 0
        self.interrupt_during = False
        self.interrupt_budget = {}
        self.ki_points_seen = set()
        self.handler_entry_invs = {}
        self.lazy_entry = {}
        self.solver_time = 0.0
        self.queries = 0
        self.cross_check = False          # thorough tier: every unbounded `unsat` of z3 is re-decided by cvc5
        self.cross = {'agree': 0, 'cvc5_undecided': 0, 'cvc5_sat': 0, 'skipped_budget': 0, 'time_s': 0.0}
        self.cross_budget_s = 240.0
        self.cur: Contract | None = None
        self.cur_fkey = ''
        self.loop_counter = 0
        self.covers = []
        self.trusted_uses = {}
        self.notes = []
        self.handler_stack = []           # exception kinds caught by enclosing try blocks
        self.cur_module = ''
        self._exc_kinds = None

    # ---------------------------------------------------------------- clause slicing
    def active(self, cl: Clause) -> bool:
        if cl.serves and all(str(x).startswith('A-') for x in cl.serves):
            return False          # an ASSUMPTION about code outside the verifier's reach (user run()): assumed at call sites, never proved
        return self.prop is None or not cl.serves or self.prop in cl.serves

    # ---------------------------------------------------------------- solver
    def _solver(self, formulas=None):
        """A solver loaded with the axioms RELEVANT to `formulas`: the closure, under sharing an uninterpreted or
        recursive function symbol, of the symbols occurring in them.  An axiom outside the closure shares no symbol with
        the query, so leaving it out changes neither `unsat` (fewer assumptions) nor `sat` (the axiom set as a whole is
        satisfiable over the same sorts, checked by install_axioms; models of disjoint signatures combine)."""
        s = z3.Solver()
        s.set('timeout', self.timeout_ms)
        axs = self.ctx.axioms
        if formulas is None or os.environ.get('PYVC_ALL_AXIOMS'):
            for a in axs:
                s.add(a)
            return s
        syms = set()
        for f in formulas:
            syms |= self._symbols(f)
        pending = [(a, self._symbols(a)) for a in axs]
        changed = True
        while changed and pending:
            changed = False
            rest = []
            for a, sy in pending:
                if not sy or (sy & syms):
                    s.add(a)
                    if not sy <= syms:
                        syms |= sy
                        changed = True
                else:
                    rest.append((a, sy))
            pending = rest
        return s

    def _symbols(self, f):
        """Names of the uninterpreted / recursive function symbols and constants in f (memoised per AST node)."""
        cache = self.__dict__.setdefault('_symcache', {})
        if not z3.is_expr(f):
            return frozenset()
        root = f.get_id()
        if root in cache:
            return cache[root][1]
        out = set()
        seen = set()
        stack = [f]
        while stack:
            x = stack.pop()
            i = x.get_id()
            if i in seen:
                continue
            seen.add(i)
            if i in cache:
                out |= cache[i][1]
                continue
            if z3.is_quantifier(x):
                stack.append(x.body())
                for k in range(x.num_patterns()):
                    pass
                continue
            if z3.is_app(x):
                d = x.decl()
                if d.kind() in (z3.Z3_OP_UNINTERPRETED, z3.Z3_OP_RECURSIVE):
                    out.add(d.name())
                stack.extend(x.children())
        out = frozenset(out)
        cache[root] = (f, out)          # the expression is kept alive: z3 recycles the ids of collected ASTs
        return out

    def check_valid(self, st: State, goal, timeout_ms=None):
        """returns (status, model_text). status in discharged / refuted / open"""
        t0 = time.time()
        s = self._solver(list(st.pc) + [goal])
        if timeout_ms is not None:
            s.set('timeout', timeout_ms)
            s.set('smt.mbqi', False)
        else:
            # a function in which several queries already went undecided (typically mutated code far from its contract) is
            # finished with short budgets: its verdict is "undecided" anyway and the stand-in decides
            tired = getattr(self, 'unknown_count', 0) >= 4
            s.set('timeout', 4000 if tired else min(self.timeout_ms, 15000))
        for a in st.pc:
            s.add(a)
        s.add(z3.Not(goal))
        r = s.check()
        if r == z3.unknown and timeout_ms is None and getattr(self, 'unknown_count', 0) >= 4:
            self.unknown_count += 1
            dt = time.time() - t0
            self.solver_time += dt
            self.queries += 1
            return 'open', 'budget exhausted for this function (several earlier queries undecided)'
        if r == z3.unknown and timeout_ms is None:
            # portfolio: z3's search is erratic (heavy-tailed) on queries with recursive functions and quantifier
            # alternation -- the same query is decided in 0.2 s in one process and not in 300 s in another, or in
            # seconds once *more* assumptions are present.  Restart with other seeds and short budgets, then with
            # the complete axiom set and the full budget, before giving the query to cvc5.
            for seed, full_axioms, budget in ((1, False, 10000), (2, False, 10000), (3, True, self.timeout_ms)):
                s = self._solver(None if full_axioms else list(st.pc) + [goal])
                s.set('timeout', min(budget, self.timeout_ms))
                s.set('random_seed', seed)
                s.set('smt.random_seed', seed)
                for a in st.pc:
                    s.add(a)
                s.add(z3.Not(goal))
                r = s.check()
                if r != z3.unknown:
                    break
        dt = time.time() - t0
        self.solver_time += dt
        self.queries += 1
        if dt > 1.0 and os.environ.get('PYVC_TRACE'):
            print(f'[slow query {dt:.1f}s {r} finite={self.ctx.finite} trial={self.trial}] goal={str(goal)[:300]}', file=sys.stderr)
        if r != z3.unsat and os.environ.get('PYVC_DUMP') and not self.trial:
            self._dumpn = getattr(self, '_dumpn', 0) + 1
            with open(os.path.join(os.environ['PYVC_DUMP'], f'q{self._dumpn}_{"fin" if self.ctx.finite else "unb"}.smt2'), 'w') as fh:
                fh.write('(set-logic ALL)\n' + s.to_smt2())
        if r == z3.unsat:
            if self.cross_check and not self.ctx.finite and not self.trial and timeout_ms is None:
                if self.cross['time_s'] > self.cross_budget_s:
                    self.cross['skipped_budget'] += 1
                else:
                    from .smt2 import cvc5_answer
                    t1 = time.time()
                    ans, _ = cvc5_answer(s, 10000)
                    self.cross['time_s'] += time.time() - t1
                    if ans == 'unsat':
                        self.cross['agree'] += 1
                    elif ans == 'sat':
                        # the two back ends disagree: never a violation, but not a proof either
                        self.cross['cvc5_sat'] += 1
                        return 'open', 'back ends disagree: z3 unsat, cvc5 sat (unbounded query)'
                    else:
                        self.cross['cvc5_undecided'] += 1
            return 'discharged', ''
        if not self.ctx.finite and not self.trial and timeout_ms is None:
            # second back end: the same query (z3's SMT-LIB print of it) is given to cvc5, whose quantifier
            # instantiation often closes what z3 leaves `unknown`.  Only an `unsat` answer is used.
            from .smt2 import cvc5_unsat
            t1 = time.time()
            ok, ver = cvc5_unsat(s, max(self.timeout_ms, 20000))
            self.solver_time += time.time() - t1
            self.queries += 1
            if ok:
                self.used_cvc5 = ver
                return 'discharged', ''
        if r != z3.sat and timeout_ms is None:
            self.unknown_count = getattr(self, 'unknown_count', 0) + 1
        if r == z3.sat:
            try:
                m = s.model()
                txt = self.model_text(m)
            except Exception as ex:  # pragma: no cover
                txt = f'<model unavailable: {ex}>'
            # in unbounded mode with quantifiers a `sat` may rest on an incomplete instantiation;
            # only finite-scope `sat` is treated as a refutation
            return ('refuted' if self.ctx.finite else 'open'), txt
        return 'open', s.reason_unknown()

    def feasible(self, st: State, cond=None) -> bool:
        t0 = time.time()
        s = self._solver(list(st.pc) + ([cond] if cond is not None else []))
        s.set('timeout', 2000 if self.ctx.finite else 500)
        s.set('smt.mbqi', False)          # `unknown` (treated as feasible) is returned as soon as E-matching saturates
        for a in st.pc:
            s.add(a)
        if cond is not None:
            s.add(cond)
        r = s.check()
        dt = time.time() - t0
        self.solver_time += dt
        self.queries += 1
        if dt > 0.4 and os.environ.get('PYVC_TRACE'):
            print(f'[slow feasibility {dt:.1f}s {r} finite={self.ctx.finite} trial={self.trial}]', file=sys.stderr)
            if os.environ.get('PYVC_DUMP'):
                self._dumpf = getattr(self, '_dumpf', 0) + 1
                open(os.path.join(os.environ['PYVC_DUMP'], f'feas{self._dumpf}.smt2'), 'w').write('(set-logic ALL)\n' + s.to_smt2())
        return r != z3.unsat

    def model_text(self, m):
        items = []
        for d in m.decls():
            n = d.name()
            if n.startswith('q!') or n.startswith('k!'):
                continue
            items.append(f'{n} = {m[d]}')
        return '; '.join(sorted(items))[:4000]

    def vc(self, st: State, goal, *, name, kind, serves=(), line=0, detail=''):
        """Emit (and immediately decide) an obligation; the goal is assumed afterwards."""
        full = f'{self.cur_fkey}/{name}'
        if self.trial:
            st.assume(goal)
            return True
        if serves and all(str(x).startswith('A-') for x in serves):
            st.assume(goal)
            return True
        if self.prop is not None and serves and self.prop not in serves:
            # proved under the properties it serves; assumed here
            st.assume(goal)
            return True
        if full in self.skip_names:
            # already refuted in finite scope: the unbounded attempt would only burn its budget on `unknown`
            st.assume(goal)
            return True
        ob = self.obligations.get(full)
        if ob is None:
            ob = Obligation(name=full, kind=kind, fkey=self.cur_fkey, serves=tuple(serves), status='discharged',
                            solver='z3-%s/%s' % (z3.get_version_string(), 'finite' if self.ctx.finite else 'unbounded'),
                            line=line, detail=detail)
            self.obligations[full] = ob
        ob.instances += 1
        if ob.status != 'discharged':
            # already not discharged on another path: deciding more instances cannot change the verdict
            st.assume(goal)
            return False
        t0 = time.time()
        self.used_cvc5 = None
        status, model = self.check_valid(st, goal)
        ob.time_s += time.time() - t0
        if self.used_cvc5 and 'cvc5' not in ob.solver:
            ob.solver += f'+cvc5-{self.used_cvc5}'
        if status == 'refuted':
            if ob.status != 'refuted':
                ob.model = model
                # a finite-scope counter-model found AFTER a loop was abstracted by its (Houdini-selected) invariant is exact only
                # if that invariant is strong enough; for new or changed loops it may be an artefact of a too-small candidate pool
                ob.detail = (ob.detail + ' ' if ob.detail else '') + ('[via-loop]' if getattr(st, 'via_loop', False) else '')
            ob.status = 'refuted'
        elif status == 'open' and ob.status == 'discharged':
            ob.status = 'open'
            ob.model = model
        st.assume(goal)
        return status == 'discharged'

    # ---------------------------------------------------------------- exception kinds
    def exc_kinds(self):
        if self._exc_kinds is None:
            ks = set(self.R.exc_parents) | set(self.R.exc_parents.values())
            ks.discard(None)
            self._exc_kinds = sorted(ks)
            self.ctx.enums['ExcKind'] = self._exc_kinds
        return self._exc_kinds

    def exckind_fn(self):
        self.exc_kinds()
        return self.ctx.func('exckind', [U('Exc')], U('ExcKind'))

    def is_kind(self, exc_z, kind: str):
        """z3 condition: exception value exc_z is an instance of `kind` (incl. subclasses)."""
        subs = [k for k in self.exc_kinds() if self.R.is_subkind(k, kind)]
        f = self.exckind_fn()
        return z3.Or([f(exc_z) == self.ctx.enum_const('ExcKind', k) for k in subs]) if subs else z3.BoolVal(False)

    def new_exc(self, st: State, kind: str):
        self.exc_kinds()
        e = self.ctx.fresh(U('Exc'), 'exc')
        if kind not in self.exc_kinds():
            raise Unsupported(f'unknown exception kind {kind}')
        st.assume(self.exckind_fn()(e) == self.ctx.enum_const('ExcKind', kind))
        return SV(U('Exc'), e)

    # ---------------------------------------------------------------- values
    def fresh_sv(self, t: T, base='v') -> SV:
        if t.k == 'obj':
            raise Unsupported(f'fresh object of {t}')
        return SV(t, self.ctx.fresh(t, base))

    def coerce(self, sv: SV, t: T) -> SV:
        if sv.t == t:
            return sv
        if sv.t.k == 'emptycoll' and sv.t.name == 'dict' and t == U('Ctx'):
            return SV(t, z3.Const('EMPTY_CTX', self.ctx.sort(t)))
        if sv.t.k == 'emptycoll':
            if t.k in ('set', 'list'):
                return SV(t, self.ctx.empty_set(t.args[0]))
            if t.k == 'map':
                return SV(t, {'dom': self.ctx.empty_set(t.args[0]), 'val': self.ctx.fresh_lifted(t.args[0], t.args[1], 'emptymap')})
        if sv.t.k in ('set', 'list') and t.k in ('set', 'list') and sv.t.args == t.args:
            return SV(t, sv.z)
        if t.k == 'opt':
            if sv.t.k == 'none':
                return SV(t, {'none': z3.BoolVal(True), 'v': self.ctx.fresh(t.args[0], 'nonev')})
            inner = self.coerce(sv, t.args[0])
            return SV(t, {'none': z3.BoolVal(False), 'v': inner.z})
        if sv.t.k == 'u' and t.k == 'u':
            conv = self.R.funcs.get(f'{sv.t.name}_to_{t.name}')
            if conv is not None:
                f = self.ctx.func(f'{sv.t.name}_to_{t.name}', [sv.t], t)
                return SV(t, f(sv.z))
        if sv.t.k == 'set' and t.k == 'set' and sv.t.args[0] != t.args[0]:
            # element-wise coercion image (only through a declared injective conversion: unsupported in general)
            raise Unsupported(f'cannot coerce {sv.t} to {t}')
        if sv.t.k == 'tuple' and t.k == 'tuple' and len(sv.t.args) == len(t.args):
            parts = [self.coerce(SV(a, z), b) for a, z, b in zip(sv.t.args, sv.z, t.args)]
            return SV(t, tuple(p.z for p in parts))
        raise Unsupported(f'cannot coerce {sv.t} to {t}')

    def unify(self, a: SV, b: SV):
        """Bring two values to a common type (for ==, if-expressions, set ops)."""
        if a.t == b.t:
            return a, b
        # value-level comparison: an instance compared with a task value is compared by its value
        if a.t == U('Inst') and b.t == U('Task'):
            return self.coerce(a, b.t), b
        if b.t == U('Inst') and a.t == U('Task'):
            return a, self.coerce(b, a.t)
        for x, y in ((a, b), (b, a)):
            try:
                xc = self.coerce(x, y.t)
                return (xc, y) if x is a else (y, xc)
            except Unsupported:
                pass
        raise Unsupported(f'cannot unify {a.t} and {b.t}')

    def truth(self, sv: SV):
        t = sv.t
        if t.k == 'bool':
            return sv.z
        if t.k == 'int':
            return sv.z != 0
        if t.k == 'opt':
            return z3.Not(sv.z['none'])      # truthiness of Optional[object]; Opt[Int]/Opt[Bool] must not be tested this way
        if t.k == 'none':
            return z3.BoolVal(False)
        if t.k in ('set', 'list'):
            return z3.Not(self.ctx.set_is_empty(t.args[0], sv.z))
        if t.k == 'map':
            return z3.Not(self.ctx.set_is_empty(t.args[0], sv.z['dom']))
        if t.k == 'str':
            return z3.Length(sv.z) > 0
        if t.k == 'pylist':
            return z3.BoolVal(bool(sv.z))
        raise Unsupported(f'truthiness of {t}')

    def boolsv(self, z):
        return SV(BOOL, z)

    # ---------------------------------------------------------------- records / attributes
    def record_of(self, t: T):
        return self.R.records.get(t.name) if t.k == 'u' else None

    def heap_record_field(self, st: State, sort: str, fld: str, heap=None):
        """Heap array of a mutable record field, created lazily.  A heap that lacks the key has never written the
        field, so its value there is the function-entry value, kept in one per-function registry."""
        heap = st.heap if heap is None else heap
        key = f'{sort}.{fld}'
        if key not in heap:
            if key not in self.lazy_entry:
                rec = self.R.records[sort]
                vt = parse_type(rec.mutable[fld])
                self.lazy_entry[key] = SV(T('lift', (U(sort), vt)), self.ctx.fresh_lifted(U(sort), vt, key))
            heap[key] = self.lazy_entry[key]
        return heap[key]

    def attr(self, st: State, base: SV, name: str, spec: bool, heap=None) -> SV:
        heap = st.heap if heap is None else heap
        t = base.t
        if t.k == 'obj':
            path = f'{base.z}.{name}'
            if path in heap:
                return heap[path]
            decl = self.R.find_class_by_name(t.name)
            if decl is not None:
                for d in self.class_chain(decl):
                    if name in d.pure:
                        return self.eval_spec_in(st, d.pure[name], {'self': base}, heap=heap)
                for d in self.class_chain(decl):
                    if any(p.startswith(name + '.') for p in d.pure):
                        return SV(T('objns', (t,), name), base.z)
            raise Unsupported(f'attribute {path} not declared')
        if t.k == 'objns':
            full = f'{t.name}.{name}'
            decl = self.R.find_class_by_name(t.args[0].name)
            for d in self.class_chain(decl):
                if full in d.pure:
                    return self.eval_spec_in(st, d.pure[full], {'self': SV(t.args[0], base.z)}, heap=heap)
            raise Unsupported(f'attribute {full} on {t.args[0]}')
        if t.k == 'u':
            rec = self.record_of(t)
            if rec is not None:
                if name in rec.mutable:
                    arr = self.heap_record_field(st, t.name, name, heap)
                    vt = parse_type(rec.mutable[name])
                    return SV(vt, self.ctx.select(vt, arr.z, base.z))
                if name in rec.immutable:
                    vt = parse_type(rec.immutable[name])
                    return self.apply_func(f'{t.name}.{name}', [base], vt, [t])
                if name in rec.pure:
                    return self.eval_spec_in(st, rec.pure[name], {'self': base}, heap=heap)
                if any(p.startswith(name + '.') for p in list(rec.pure) + list(rec.obj_attrs)):
                    return SV(T('ns', (t,), name), base.z)
            raise Unsupported(f'attribute .{name} on {t}')
        if t.k == 'ns':
            rec = self.R.records[t.args[0].name]
            full = f'{t.name}.{name}'
            if full in rec.obj_attrs:
                return SV(OBJ(rec.obj_attrs[full]), f'@{t.args[0].name}.{full}')
            if full in rec.pure:
                return self.eval_spec_in(st, rec.pure[full], {'self': SV(t.args[0], base.z)}, heap=heap)
            if any(p.startswith(full + '.') for p in rec.pure):
                return SV(T('ns', t.args, full), base.z)
            raise Unsupported(f'attribute {full} on {t.args[0]}')
        if t.k == 'tuple' and name in ('value', 'meta') and False:
            pass
        raise Unsupported(f'attribute .{name} on {t}')

    def class_chain(self, decl):
        seen, todo = [], [decl]
        while todo:
            d = todo.pop(0)
            if d in seen:
                continue
            seen.append(d)
            for b in d.bases:
                if b in self.R.classes:
                    todo.append(self.R.classes[b])
        return seen

    def apply_func(self, name, args, res_t: T, arg_ts=None):
        """Uninterpreted function application; results of opt/tuple type use one function per component."""
        arg_ts = arg_ts or [a.t for a in args]
        zs = [a.z for a in args]

        def build(t: T, nm):
            if t.k in ('int', 'bool', 'str', 'u', 'set', 'dset', 'list', 'cnt'):
                return self.ctx.func(nm, arg_ts, t)(*zs)
            if t.k == 'opt':
                return {'none': self.ctx.func(nm + '.none', arg_ts, BOOL)(*zs), 'v': build(t.args[0], nm + '.v')}
            if t.k == 'tuple':
                return tuple(build(a, f'{nm}.{i}') for i, a in enumerate(t.args))
            raise Unsupported(f'function result type {t}')
        return SV(res_t, build(res_t, name))

    def rec_function(self, nm):
        """z3 function for a recursive spec function.  Its definition is *revealed* (RecFunction, unfolded by z3) only
        in the functions whose contract asks for it; everywhere else it is an opaque uninterpreted symbol, which keeps
        queries small and lets the finite-scope pass produce counter-models."""
        reveal = set(getattr(self.cur, 'reveal', ()) or ()) if self.cur is not None else set()
        if getattr(self, 'reveal_all', False):
            reveal = set(self.R.recfuncs)
        key = tuple(sorted(reveal))
        self._recf = getattr(self, '_recf', {})
        if key not in self._recf:
            table = {}
            for name, d in self.R.recfuncs.items():
                pts = [parse_type(t) for t in d['params'].values()]
                mk = z3.RecFunction if name in reveal else z3.Function
                table[name] = mk(f'{name}!{self.ctx.uid}' + ('' if name in reveal else '!opaque'),
                                 *[self.ctx.sort(t) for t in pts], self.ctx.sort(parse_type(d['res'])))
            self._recf[key] = table
            self._recf_current = key
            for name, d in self.R.recfuncs.items():
                if name not in reveal:
                    continue
                pts = [parse_type(t) for t in d['params'].values()]
                vars_ = [z3.Const(f'{name}_{p}!{self.ctx.uid}', self.ctx.sort(t)) for p, t in zip(d['params'], pts)]
                st = State()
                saved = self.cur
                body = self.eval_spec_in(st, d['body'], {p: SV(t, v) for p, t, v in zip(d['params'], pts, vars_)})
                body = self.coerce(body, parse_type(d['res']))
                z3.RecAddDefinition(table[name], vars_, body.z)
        return self._recf[key][nm]

    def new_record(self, st: State, sort: str) -> SV:
        """`Cls()`: a fresh object that is in no existing collection, with its declared initial field values."""
        rec = self.R.records[sort]
        t = U(sort)
        x = self.ctx.fresh(t, 'new_' + sort)
        def mentions(v: SV):
            tt = v.t
            if tt.k in ('set', 'list') and tt.args[0] == t:
                st.assume(z3.Not(z3.Select(v.z, x)))
            elif tt.k == 'map':
                kt, vt = tt.args
                if kt == t:
                    st.assume(z3.Not(z3.Select(v.z['dom'], x)))
                if vt.k == 'tuple':
                    for i, a in enumerate(vt.args):
                        if a == t:
                            st.assume(self.ctx.forall([kt], lambda k, i=i: z3.Implies(z3.Select(v.z['dom'], k), self.ctx.select(vt, v.z['val'], k)[i] != x)))
                elif vt == t:
                    st.assume(self.ctx.forall([kt], lambda k: z3.Implies(z3.Select(v.z['dom'], k), z3.Select(v.z['val'], k) != x)))
        if rec.value:
            return SV(t, x)
        for v in list(st.heap.values()):
            if isinstance(v, SV):
                mentions(v)
        for f in st.frames:
            for v in f.values():
                if isinstance(v, SV):
                    if v.t == t:
                        st.assume(v.z != x)
                    else:
                        mentions(v)
        for fld, init in rec.ctor.items():
            arr = self.heap_record_field(st, sort, fld)
            vt = parse_type(rec.mutable[fld])
            iv = self.coerce(self.eval_spec_in(st, init, {}), vt)
            st.heap[f'{sort}.{fld}'] = SV(arr.t, self.ctx.store(vt, arr.z, x, iv.z))
        for cl in rec.ctor_assume:
            st.assume(self.eval_clause(st, cl if hasattr(cl, 'expr') else Clause(expr=cl), {'result': SV(t, x)}))
            self.trusted_uses[f'assumed at construction of {sort}: {getattr(cl, "name", "") or cl}'] = self.trusted_uses.get(f'assumed at construction of {sort}: {getattr(cl, "name", "") or cl}', 0) + 1
        return SV(t, x)

    # ---------------------------------------------------------------- spec evaluation helpers
    def eval_spec_in(self, st: State, text: str, binds: dict, heap=None, old=None) -> SV:
        """Evaluate a spec expression with `binds` as the only local names."""
        node = parse_spec(text)
        sub = State([dict(binds)], st.heap if heap is None else heap, st.pc, st.old if old is None else old)
        ev = Evaluator(self, sub, spec=True)
        v = ev.ev(node)
        if ev.may_raise:
            # spec expressions are total; partial operations inside specs are guarded by the spec author
            pass
        return v

    def eval_clause(self, st: State, cl: Clause, binds: dict, heap=None, old=None):
        try:
            v = self.eval_spec_in(st, cl.expr, binds, heap=heap, old=old)
        except KeyError as ex:
            raise SpecError(f'clause {cl.label()!r}: unbound {ex}')
        return self.truth(v)


# --------------------------------------------------------------------------- expression evaluator
SPEC_FUNCS = {'is_identifier', 'is_hex40', 'concat', 'contains', 'some', 'exc_is', 'sadd', 'sdel', 'forall', 'exists', 'implies', 'iff', 'old', 'card', 'dom', 'ite', 'empty', 'INV', 'subset', 'disjoint',
              'fresh_of', 'keys', 'isnone', 'some', 'unopt', 'select', 'tuple_of', 'typed_empty'}


class Evaluator:
    def __init__(self, eng: Engine, st: State, spec=False, heap=None):
        self.eng = eng
        self.ctx = eng.ctx
        self.R = eng.R
        self.st = st
        self.spec = spec
        self.heap = heap if heap is not None else st.heap
        self.may_raise = []          # [(ok_condition, exception kind, description)]
        self.hint: T | None = None   # expected type for empty literals

    # -- entry
    def ev(self, n, hint: T | None = None) -> SV:
        ot = getattr(self.eng.cur, 'opaque_tests', None) if not self.spec else None
        if ot:
            try:
                txt = ast.unparse(n)
            except Exception:
                txt = None
            if txt in ot:
                # a string test whose text is not modelled character by character: it stands for a declared spec predicate
                self.eng.trusted_uses[f'opaque test in {self.eng.cur_fkey}: `{txt}` read as {ot[txt]}'] = 1
                binds = {k: v for f in self.st.frames for k, v in f.items()}
                return self.eng.eval_spec_in(self.st, ot[txt], binds, heap=self.heap)
        m = getattr(self, 'ev_' + type(n).__name__, None)
        if m is None:
            raise Unsupported(f'expression {type(n).__name__}: {ast.unparse(n)[:60]}')
        old_hint = self.hint
        self.hint = hint
        try:
            return m(n)
        finally:
            self.hint = old_hint

    def sub(self, heap=None, frames=None):
        st = self.st
        if frames is not None:
            st2 = State(frames, st.heap, st.pc, st.old)
            st2.frame_locals = [None] * len(frames)
        else:
            st2 = st
        e = Evaluator(self.eng, st2, self.spec, heap if heap is not None else self.heap)
        e.may_raise = self.may_raise
        return e

    # -- leaves
    def ev_Constant(self, n):
        v = n.value
        if v is None:
            return SV(NONE, None)
        if isinstance(v, bool):
            return SV(BOOL, z3.BoolVal(v))
        if isinstance(v, int):
            return SV(INT, z3.IntVal(v))
        if isinstance(v, str):
            return SV(STR, z3.StringVal(v))
        if isinstance(v, float):
            # floats only occur as opaque time-outs here; no arithmetic is done on them
            return SV(U('Float'), z3.Const(f'float_{str(v).replace(".", "_").replace("-", "m")}', self.ctx.sort(U('Float'))))
        raise Unsupported(f'constant {v!r}')

    def ev_Name(self, n):
        nm = n.id
        if self.st.has(nm):
            v = self.st.get(nm)
            org = getattr(v, 'origin', None)
            if org is not None and self.heap is self.st.heap:
                # a local that aliases a collection stored in the heap: read through to the current contents
                cur = self.ev(org)
                cur = SV(cur.t, cur.z)
                cur.origin = org
                return cur
            return v
        if nm in self.R.enums:
            return SV(T('enumcls', (), nm), nm)
        if nm in self.R.exc_parents or nm in self.R.exc_parents.values():
            return SV(T('exccls', (), nm), nm)
        if nm in self.R.global_objects:
            return SV(OBJ(self.R.global_objects[nm]), f'@{nm}')
        if nm in getattr(self.R, 'const_exprs', {}):
            return self.eng.eval_spec_in(self.st, self.R.const_exprs[nm], {}, heap=self.heap)
        if nm in self.R.const_names:
            t = U(self.R.const_names[nm])
            return SV(t, z3.Const(f'const_{nm}', self.ctx.sort(t)))
        g = self.R.globals.get(nm) if hasattr(self.R, 'globals') else None
        if g is not None:
            path = f'@{nm}'
            if path in self.heap:
                return self.heap[path]
        raise KeyError(nm)

    def ev_JoinedStr(self, n):
        # message text is dropped by extraction; where an f-string survives it is an opaque string
        return SV(STR, self.ctx.fresh(STR, 'fstr'))

    def ev_Tuple(self, n):
        parts = [self.ev(e) for e in n.elts]
        return SV(TUP(*[p.t for p in parts]), tuple(p.z for p in parts))

    def ev_List(self, n):
        if n.elts and getattr(self.eng.cur, 'pylists', False):
            return SV(T('pylist'), [self.ev(e) for e in n.elts])
        return self._set_literal(n.elts, 'list')

    def ev_Set(self, n):
        return self._set_literal(n.elts, 'set')

    def _set_literal(self, elts, kind):
        if not elts:
            if self.hint is not None and self.hint.k in ('set', 'list'):
                et = self.hint.args[0]
                return SV(T(kind, (et,)), self.ctx.empty_set(et))
            return SV(T('emptycoll', (), kind), None)
        parts = [self.ev(e) for e in elts]
        et = parts[0].t
        if self.hint is not None and self.hint.k in ('set', 'list'):
            et = self.hint.args[0]
        s = self.ctx.empty_set(et)
        for p in parts:
            s = z3.Store(s, self.eng.coerce(p, et).z, True)
        return SV(T(kind, (et,)), s)

    def ev_Dict(self, n):
        if not n.keys:
            if self.hint is not None and self.hint.k == 'map':
                kt, vt = self.hint.args
                return self.empty_map(kt, vt)
            return SV(T('emptycoll', (), 'dict'), None)
        if all(isinstance(k, ast.Constant) and isinstance(k.value, str) for k in n.keys):
            keys = [k.value for k in n.keys]
            for sort, fields in self.R.json_records.items():
                if set(keys) <= set(fields):
                    return self.json_literal(sort, fields, dict(zip(keys, n.values)))
        raise Unsupported('dict literal')

    def json_literal(self, sort, fields, given):
        dti = self.ctx.dt_info
        args = []
        for k, ts in fields.items():
            t = parse_type(ts)
            has = k in given
            args.append(z3.BoolVal(has))
            if has:
                v = self.ev(given[k], t)
                v = self.eng.coerce(v, t)
            else:
                v = SV(t, self.ctx.fresh(t, 'absent_' + k))
            if t.k == 'opt':
                args.append(v.z['none'])
                args.append(v.z['v'])
            else:
                args.append(v.z)
        return SV(U(sort), dti[f'Mk{sort}'][2](*args))

    def json_field(self, doc: SV, key: str):
        """(present, value SV) of a constant key of a JSON object record."""
        fields = self.R.json_records[doc.t.name]
        if key not in fields:
            raise Unsupported(f'key {key!r} is not in the vocabulary of {doc.t.name}')
        dti = self.ctx.dt_info
        t = parse_type(fields[key])
        kk = key.replace('-', '_')
        has = dti[f'{doc.t.name}_has_{kk}'][2](doc.z)
        val = dti[f'{doc.t.name}_val_{kk}'][2](doc.z)
        if t.k == 'opt':
            return has, SV(t, {'none': dti[f'{doc.t.name}_null_{kk}'][2](doc.z), 'v': val})
        return has, SV(t, val)

    def empty_map(self, kt, vt):
        return SV(MAP(kt, vt), {'dom': self.ctx.empty_set(kt), 'val': self.ctx.fresh_lifted(kt, vt, 'emptymap')})

    # -- attribute / subscript
    def ev_Attribute(self, n):
        dotted = None
        try:
            dotted = ast.unparse(n)
        except Exception:
            pass
        if dotted in getattr(self.R, 'const_exprs', {}):
            root = n
            while isinstance(root, ast.Attribute):
                root = root.value
            if isinstance(root, ast.Name) and not self.st.has(root.id):
                return self.eng.eval_spec_in(self.st, self.R.const_exprs[dotted], {}, heap=self.heap)
        # enum member  FState.PENDING
        if isinstance(n.value, ast.Name) and n.value.id in self.R.enums and not self.st.has(n.value.id):
            en = n.value.id
            if n.attr in self.R.enums[en]:
                return SV(U(en), self.ctx.enum_const(en, n.attr))
        base = self.ev(n.value)
        if base.t.k == 'tuple' and base.t.name:
            pass
        named = self.R.named_tuples.get(str(base.t)) if hasattr(self.R, 'named_tuples') else None
        if base.t.k == 'tuple':
            fields = self.eng.tuple_fields(base.t)
            if fields and n.attr in fields:
                i = fields.index(n.attr)
                return SV(base.t.args[i], base.z[i])
        return self.eng.attr(self.st, base, n.attr, self.spec, heap=self.heap)

    def ev_Subscript(self, n):
        base = self.ev(n.value)
        t = base.t
        if isinstance(n.slice, ast.Slice):
            return self.slice_of(base, n.slice)
        if t.k == 'tuple':
            if isinstance(n.slice, ast.Constant) and isinstance(n.slice.value, int):
                i = n.slice.value
                return SV(t.args[i], base.z[i])
            raise Unsupported('tuple index must be constant')
        if t.k == 'u' and t.name in self.R.json_records and isinstance(n.slice, ast.Constant) and isinstance(n.slice.value, str):
            has, val = self.json_field(base, n.slice.value)
            self.may_raise.append((has, 'KeyError', ast.unparse(n)))
            return val
        if t.k == 'opt' and t.args[0].k == 'map':
            self.may_raise.append((z3.Not(base.z['none']), 'TypeError', 'subscript on None'))
            base = SV(t.args[0], base.z['v'])
            t = base.t
        key = self.ev(n.slice)
        if t.k == 'map':
            k = self.eng.coerce(key, t.args[0])
            self.may_raise.append((z3.Select(base.z['dom'], k.z), 'KeyError', ast.unparse(n)))
            return SV(t.args[1], self.ctx.select(t.args[1], base.z['val'], k.z))
        if t.k == 'dset':
            k = self.eng.coerce(key, t.args[0])
            return SV(SET(t.args[1]), z3.Select(base.z, k.z))
        if t.k == 'cnt':
            k = self.eng.coerce(key, t.args[0])
            return SV(INT, z3.Select(base.z, k.z))
        if t.k == 'lift':
            k = self.eng.coerce(key, t.args[0])
            return SV(t.args[1], self.ctx.select(t.args[1], base.z, k.z))
        raise Unsupported(f'subscript on {t}')

    def slice_of(self, base: SV, sl: ast.Slice):
        # xs[:n] on a list/set view: some subset with min(max(n,0), len) elements
        if sl.lower is not None or sl.step is not None or sl.upper is None:
            raise Unsupported('only xs[:n] slices')
        if base.t.k not in ('set', 'list'):
            raise Unsupported(f'slice of {base.t}')
        n = self.ev(sl.upper)
        et = base.t.args[0]
        r = self.ctx.fresh(SET(et), 'slice')
        cb, cr = self.ctx.card(et, base.z), self.ctx.card(et, r)
        nn = z3.If(n.z < 0, z3.IntVal(0), n.z)   # (negative n would mean "all but last -n"; callers pass max(0, .))
        self.may_raise.append((n.z >= 0, 'Unsupported-negative-slice', 'slice bound must be >= 0'))
        self.st.assume(self.ctx.subset(et, r, base.z))
        self.st.assume(cr == z3.If(nn < cb, nn, cb))
        self.st.assume(z3.Implies(nn >= cb, self.ctx.ext_eq(SET(et), r, base.z)))     # xs[:n] with n >= len(xs) is xs
        return SV(T(base.t.k, (et,)), r)

    # -- operators
    def ev_UnaryOp(self, n):
        v = self.ev(n.operand)
        if isinstance(n.op, ast.Not):
            return SV(BOOL, z3.Not(self.eng.truth(v)))
        if isinstance(n.op, ast.USub) and v.t.k == 'int':
            return SV(INT, -v.z)
        raise Unsupported(f'unary {type(n.op).__name__}')

    def ev_BoolOp(self, n):
        # short-circuit: implicit-raise conditions of later operands are guarded by earlier ones
        vals = []
        raw = []
        guard = z3.BoolVal(True)
        for e in n.values:
            saved = self.may_raise
            self.may_raise = []
            r = self.ev(e)
            v = self.eng.truth(r)
            mine = self.may_raise
            self.may_raise = saved
            for ok, kind, d in mine:
                self.may_raise.append((z3.Implies(guard, ok), kind, d))
            vals.append(v)
            raw.append(r)
            guard = z3.And(guard, v) if isinstance(n.op, ast.And) else z3.And(guard, z3.Not(v))
        if all(r.t.k == 'int' for r in raw):
            # `a or b` / `a and b` on integers yields one of the operands (Python value semantics), not a bool
            out = raw[-1].z
            for r, v in zip(reversed(raw[:-1]), reversed(vals[:-1])):
                out = z3.If(v, r.z, out) if isinstance(n.op, ast.Or) else z3.If(v, out, r.z)
            return SV(INT, out)
        return SV(BOOL, z3.And(vals) if isinstance(n.op, ast.And) else z3.Or(vals))

    def _narrowed(self, test, positive, node):
        """Evaluate `node` in the branch of `X is None` / `X is not None` where the Optional local X is known to hold a
        value: X is read as that value there (flow-sensitive narrowing; sound because the branch is only selected then)."""
        nm = None
        if (isinstance(test, ast.Compare) and len(test.ops) == 1 and isinstance(test.left, ast.Name)
                and isinstance(test.comparators[0], ast.Constant) and test.comparators[0].value is None
                and isinstance(test.ops[0], (ast.Is, ast.IsNot))):
            is_none_branch = isinstance(test.ops[0], ast.Is) == positive
            if not is_none_branch:
                nm = test.left.id
        if nm is None or not self.st.has(nm) or self.st.get(nm).t.k != 'opt':
            return self.ev(node, self.hint)
        full = self.st.get(nm)
        self.st.set(nm, SV(full.t.args[0], full.z['v']))
        try:
            return self.ev(node, self.hint)
        finally:
            self.st.set(nm, full)

    def ev_IfExp(self, n):
        c = self.eng.truth(self.ev(n.test))
        saved = self.may_raise
        self.may_raise = []
        a = self._narrowed(n.test, True, n.body)
        ra = self.may_raise
        self.may_raise = []
        b = self._narrowed(n.test, False, n.orelse)
        rb = self.may_raise
        self.may_raise = saved
        for ok, kind, d in ra:
            self.may_raise.append((z3.Implies(c, ok), kind, d))
        for ok, kind, d in rb:
            self.may_raise.append((z3.Implies(z3.Not(c), ok), kind, d))
        a, b = self.fix_empty(a, b)
        # `None if c else x` / `x if c else None`: an Optional of x's type
        if a.t.k == 'none' and b.t.k not in ('none', 'opt'):
            a = SV(OPT(b.t), {'none': z3.BoolVal(True), 'v': self.ctx.fresh(b.t, 'nil')})
            b = SV(OPT(b.t), {'none': z3.BoolVal(False), 'v': b.z})
        elif b.t.k == 'none' and a.t.k not in ('none', 'opt'):
            b = SV(OPT(a.t), {'none': z3.BoolVal(True), 'v': self.ctx.fresh(a.t, 'nil')})
            a = SV(OPT(a.t), {'none': z3.BoolVal(False), 'v': a.z})
        a, b = self.eng.unify(a, b)
        return SV(a.t, self.ctx.ite(a.t, c, a.z, b.z))

    def fix_empty(self, a: SV, b: SV):
        """Give an untyped empty literal the type of the other operand."""
        def conv(x, other):
            if x.t.k == 'emptycoll':
                if other.t.k in ('set', 'list'):
                    return SV(other.t, self.ctx.empty_set(other.t.args[0]))
                if other.t.k == 'map':
                    return self.empty_map(*other.t.args)
                if other.t.k == 'dset':
                    return SV(other.t, self.ctx.empty_dset(*other.t.args))
            return x
        return conv(a, b), conv(b, a)

    def ev_BinOp(self, n):
        a = self.ev(n.left)
        if a.t.k == 'opt' and a.t.args[0].k in ('set', 'list'):
            self.may_raise.append((z3.Not(a.z['none']), 'TypeError', 'None used as a set'))
            a = SV(a.t.args[0], a.z['v'])
        b = self.ev(n.right, a.t if a.t.k in ('set', 'list') else None)
        a, b = self.fix_empty(a, b)
        op = type(n.op).__name__
        if a.t.k == 'int' and b.t.k == 'int':
            if op == 'Add':
                return SV(INT, a.z + b.z)
            if op == 'Sub':
                return SV(INT, a.z - b.z)
            if op == 'Mult':
                return SV(INT, a.z * b.z)
            raise Unsupported(f'int op {op}')
        if a.t.k in ('set', 'list') and b.t.k in ('set', 'list'):
            et = a.t.args[0]
            if b.t.args[0] != et:
                raise Unsupported(f'set op between {a.t} and {b.t}')
            if op in ('BitOr', 'Add'):
                return SV(a.t, self.ctx.set_union(et, a.z, b.z))
            if op == 'BitAnd':
                return SV(a.t, self.ctx.set_inter(et, a.z, b.z))
            if op == 'Sub':
                return SV(a.t, self.ctx.set_diff(et, a.z, b.z))
        if a.t.k == 'str' and b.t.k == 'str' and op == 'Add':
            return SV(STR, z3.Concat(a.z, b.z))
        if op == 'Sub' and a.t == U('Time') and b.t == U('Time'):
            return self.eng.apply_func('time_diff', [a, b], U('Dur'), [U('Time'), U('Time')])
        if op == 'Div' and a.t == U('Path') and b.t.k == 'str':
            return self.eng.apply_func('pjoin', [a, b], U('Path'), [U('Path'), STR])
        raise Unsupported(f'binary {op} on {a.t}, {b.t}')

    def ev_Compare(self, n):
        left = self.ev(n.left)
        conj = []
        for op, rn in zip(n.ops, n.comparators):
            right = self.ev(rn, left.t if left.t.k in ('set', 'list', 'map') else None)
            conj.append(self.compare(op, left, right))
            left = right
        return SV(BOOL, z3.And(conj) if len(conj) > 1 else conj[0])

    def compare(self, op, a: SV, b: SV):
        on = type(op).__name__
        if on in ('Is', 'IsNot', 'Eq', 'NotEq') and (a.t.k == 'none' or b.t.k == 'none'):
            x = b if a.t.k == 'none' else a
            if x.t.k == 'none':
                r = z3.BoolVal(True)
            elif x.t == U('PV'):
                r = self.ctx.dt_info['is_PNone'][2](x.z)
            elif x.t.k == 'opt':
                r = x.z['none']
            else:
                r = z3.BoolVal(False)
            return r if on in ('Is', 'Eq') else z3.Not(r)
        if on in ('In', 'NotIn'):
            r = self.member(a, b)
            return r if on == 'In' else z3.Not(r)
        a, b = self.fix_empty(a, b)
        if on in ('Eq', 'NotEq', 'Is', 'IsNot'):
            if a.t.k in ('enumcls', 'exccls') or b.t.k in ('enumcls', 'exccls'):
                raise Unsupported('class comparison')
            if (not self.spec) and on in ('Eq', 'NotEq') and a.t == U('Inst') and b.t == U('Inst'):
                # code `==` on task objects is dataclass value equality; identity is `is` (specs use == for identity)
                a, b = self.eng.coerce(a, U('Task')), self.eng.coerce(b, U('Task'))
            a, b = self.eng.unify(a, b)
            r = self.ctx.eq(a.t, a.z, b.z)
            return r if on in ('Eq', 'Is') else z3.Not(r)
        if a.t.k == 'int' and b.t.k == 'int':
            return {'Lt': a.z < b.z, 'LtE': a.z <= b.z, 'Gt': a.z > b.z, 'GtE': a.z >= b.z}[on]
        if a.t.k in ('set', 'list') and b.t.k in ('set', 'list') and on == 'LtE':
            return self.ctx.subset(a.t.args[0], a.z, b.z)
        if a.t.k == 'opt' and a.t.args[0].k == 'int' and b.t.k == 'int':
            # comparing an Optional[int] that the code has already tested against None
            self.may_raise.append((z3.Not(a.z['none']), 'TypeError', 'None compared with int'))
            return self.compare(op, SV(INT, a.z['v']), b)
        if b.t.k == 'opt' and b.t.args[0].k == 'int' and a.t.k == 'int':
            self.may_raise.append((z3.Not(b.z['none']), 'TypeError', 'int compared with None'))
            return self.compare(op, a, SV(INT, b.z['v']))
        raise Unsupported(f'compare {on} on {a.t}, {b.t}')

    def member(self, x: SV, coll: SV):
        if coll.t.k == 'u' and coll.t.name in self.R.json_records and x.t.k == 'str' and z3.is_string_value(x.z):
            return self.json_field(coll, x.z.as_string())[0]
        if coll.t.k == 'opt' and coll.t.args[0].k in ('set', 'list', 'map'):
            self.may_raise.append((z3.Not(coll.z['none']), 'TypeError', 'membership test on None'))
            coll = SV(coll.t.args[0], coll.z['v'])
        t = coll.t
        if t.k in ('set', 'list') and t.args[0] == U('Inst') and x.t == U('Task'):
            # `task in tasks` compares with ==, i.e. by value
            f = self.ctx.func('Inst_to_Task', [U('Inst')], U('Task'))
            return self.ctx.exists([U('Inst')], lambda i: z3.And(z3.Select(coll.z, i), f(i) == x.z))
        if t.k in ('set', 'list') and getattr(coll, 'pred', None) is not None:
            return coll.pred(self.eng.coerce(x, t.args[0]).z)
        if t.k in ('set', 'list'):
            return z3.Select(coll.z, self.eng.coerce(x, t.args[0]).z)
        if t.k == 'map':
            return z3.Select(coll.z['dom'], self.eng.coerce(x, t.args[0]).z)
        if t.k == 'dset':
            # `k in defaultdict`: entries exist only for keys that were touched; not modelled
            raise Unsupported('membership test on defaultdict(set)')
        if t.k == 'emptycoll':
            return z3.BoolVal(False)
        if t.k == 'pylist':
            ds = []
            for e in coll.z:
                try:
                    a, b = self.eng.unify(x, e)
                    ds.append(self.ctx.eq(a.t, a.z, b.z))
                except Unsupported:
                    pass
            return z3.Or(ds) if ds else z3.BoolVal(False)
        if t.k == 'str' and x.t.k == 'str':
            return z3.Contains(coll.z, x.z)
        if t.k == 'str' and x.t.k == 'opt' and x.t.args[0].k == 'str':
            self.may_raise.append((z3.Not(x.z['none']), 'TypeError', 'None in str'))
            return z3.Contains(coll.z, x.z['v'])
        raise Unsupported(f'membership in {t}')

    # -- comprehensions
    def ev_SetComp(self, n):
        return self.comp(n, 'set')

    def ev_ListComp(self, n):
        return self.comp(n, 'list')

    def ev_GeneratorExp(self, n):
        return self.comp(n, 'list')

    def comp(self, n, kind):
        sc = self.struct_comp(n)
        if sc is not None:
            return sc
        if len(n.generators) != 1:
            raise Unsupported('nested comprehension')
        g = n.generators[0]
        it = self.ev(g.iter)
        dom_t, member_fn, bind_fn = self.iter_domain(it, g.target)

        def body(k):
            frames = self.st.frames + [bind_fn(k)]
            e = self.sub(frames=frames)
            conds = [self.eng.truth(e.ev(c)) for c in g.ifs]
            return e, z3.And([member_fn(k)] + conds)

        # element expression must be (a coercion of) the bound key for a set-valued result
        e0, _ = body(self.ctx._bound(dom_t) if not (dom_t.k == 'u' and self.ctx.is_enumerated(dom_t.name)) else self.ctx.consts(dom_t.name)[0]) \
            if False else (None, None)
        # Result {elt(k) : k in dom, conds}. Supported when elt is the loop key itself or an injective view of it.
        probe_k = self.ctx.fresh(dom_t, 'probe')
        pe = self.sub(frames=self.st.frames + [bind_fn(probe_k)])
        saved = pe.may_raise
        pe.may_raise = []
        elt_probe = pe.ev(n.elt)
        pe.may_raise = saved
        et = elt_probe.t
        if et.k not in ('u', 'int', 'bool', 'str'):
            raise Unsupported(f'comprehension element type {et}')
        pred = None
        if et == dom_t and z3.eq(elt_probe.z, probe_k):
            r = self.ctx.set_comp(dom_t, lambda k: body(k)[1])
            pred = lambda y: body(y)[1]
        else:
            # image: {y : exists k. member(k) and conds(k) and y == elt(k)}
            def inimg(y):
                def ex(k):
                    e, c = body(k)
                    sv = e.ev(n.elt)
                    return z3.And(c, sv.z == y)
                return self.ctx.exists([dom_t], ex)
            r = self.ctx.set_comp(et, inimg)
            pred = inimg
        self.comp_safety(dom_t, body, [n.elt])
        out = SV(T(kind, (et,)), r)
        out.pred = pred          # membership tests use the defining formula directly instead of selecting from a lambda term
        return out

    def struct_source(self, it_node):
        """Children of a value tree named by a comprehension source: (children SV, 'list'|'ents', how values are reached)."""
        node, via = it_node, 'iter'
        if isinstance(node, ast.Call) and isinstance(node.func, ast.Name) and node.func.id == 'enumerate' and len(node.args) == 1:
            node, via = node.args[0], 'enumerate'
        if isinstance(node, ast.Call) and isinstance(node.func, ast.Attribute) and node.func.attr in ('values', 'items') and not node.args:
            via = node.func.attr
            node = node.func.value
        try:
            src = self.ev(node)
        except (KeyError, Unsupported):
            return None
        if src.t != U('PV'):
            return None
        dti = self.ctx.dt_info
        is_ = lambda c: dti['is_' + c][2](src.z)
        acc = lambda a: dti[a][2](src.z)
        if via in ('values', 'items'):
            ok = z3.Or(is_('PDict'), is_('PFrozen'))
            ch = z3.If(is_('PDict'), acc('dents'), acc('fents'))
            return SV(U('PE'), ch), 'ents', via, ok
        ok = z3.Or(is_('PList'), is_('PTuple'))
        ch = z3.If(is_('PList'), acc('litems'), acc('titems'))
        return SV(U('PL'), ch), 'list', via, ok

    def struct_comp(self, n):
        """Comprehensions that map / concat-map a recursive function with a declared spec over the children of a value
        tree are translated to the spec's list/entry lifting (code and spec meet syntactically; the recursive calls are
        the induction hypothesis on structurally smaller arguments)."""
        gens = n.generators
        src = self.struct_source(gens[0].iter)
        if src is None:
            return None
        children, shape, via, ok = src
        if any(g.ifs for g in gens):
            raise Unsupported('filtered comprehension over a value tree')
        self.may_raise.append((ok, 'TypeError', 'iteration over a non-collection value'))
        # name of the variable holding each child value
        tgt = gens[0].target
        if via in ('enumerate', 'items'):
            if not (isinstance(tgt, ast.Tuple) and len(tgt.elts) == 2 and all(isinstance(e, ast.Name) for e in tgt.elts)):
                raise Unsupported('target shape over a value tree')
            keyvar, itemvar = tgt.elts[0].id, tgt.elts[1].id
        else:
            if not isinstance(tgt, ast.Name):
                raise Unsupported('target shape over a value tree')
            keyvar, itemvar = None, tgt.id

        def rec_call(node):
            if not isinstance(node, ast.Call):
                return None
            f = node.func
            name = f.id if isinstance(f, ast.Name) else (f.attr if isinstance(f, ast.Attribute) else None)
            c = self.eng.resolve_function(name) if isinstance(f, ast.Name) else None
            if c is None and isinstance(f, ast.Attribute):
                try:
                    recv = self.ev(f.value)
                    c = self.eng.method_contract_for(recv, f.attr)
                except (KeyError, Unsupported):
                    c = None
            if c is None or not c.spec:
                return None
            uses = [a for a in list(node.args) + [k.value for k in node.keywords] if isinstance(a, ast.Name) and a.id == itemvar]
            return c if uses else None

        if len(gens) == 2:
            c = rec_call(gens[1].iter)
            if c is None or not (isinstance(n.elt, ast.Name) and isinstance(gens[1].target, ast.Name) and n.elt.id == gens[1].target.id):
                raise Unsupported('nested comprehension over a value tree (not a concat-map of a spec function)')
            key = 'concat_list' if shape == 'list' else 'concat_vals'
            lifted = c.lift.get(key)
            if not lifted:
                raise Unsupported(f'{c.key} declares no {key} lifting')
            self.lift_requires(c, children, shape)
            f = self.eng.rec_function(lifted)
            self.eng.count_use(c)
            return SV(parse_type(self.R.recfuncs[lifted]['res']), f(children.z))
        if len(gens) == 1 and isinstance(n, (ast.ListComp, ast.GeneratorExp, ast.SetComp)):
            c = rec_call(n.elt)
            if c is None:
                raise Unsupported('comprehension over a value tree (not a map of a spec function)')
            lifted = c.lift.get('map_list' if shape == 'list' else 'map_vals')
            if not lifted:
                raise Unsupported(f'{c.key} declares no map lifting')
            self.lift_requires(c, children, shape)
            self.lift_raises(c, children, shape)
            f = self.eng.rec_function(lifted)
            self.eng.count_use(c)
            out = SV(parse_type(self.R.recfuncs[lifted]['res']), f(children.z))
            if isinstance(n, ast.ListComp) and out.t == U('PL'):
                return SV(U('PV'), self.ctx.dt_info['PList'][2](out.z))       # a list display builds a Python list
            return out
        return None

    def lift_requires(self, c, children, shape):
        for pred, table in getattr(c, 'lift_pred', {}).items():
            lp = table.get('list' if shape == 'list' else 'ents')
            if lp:
                self.may_raise.append((self.eng.rec_function(lp)(children.z), 'Precondition', f'{c.key} requires {pred} of every child'))

    def lift_raises(self, c, children, shape):
        for kind, table in getattr(c, 'lift_raises', {}).items():
            lp = table.get('list' if shape == 'list' else 'ents')
            if lp:
                # the callee raises `kind` on a child iff the lifted definedness predicate fails
                self.may_raise.append((self.eng.rec_function(lp)(children.z), kind, f'{c.key} raises {kind} on some child'))

    def comp_safety(self, dom_t, body, exprs):
        """Implicit-raise conditions inside a comprehension, quantified over its domain."""
        collected = []

        def q(k):
            e, c = body(k)
            e.may_raise = []
            for x in exprs:
                e.ev(x)
            oks = [ok for ok, _, _ in e.may_raise]
            for _, kind, d in e.may_raise:
                collected.append((kind, d))
            return z3.Implies(c, z3.And(oks)) if oks else z3.BoolVal(True)
        f = self.ctx.forall([dom_t], q)
        if collected:
            kind, d = collected[0]
            self.may_raise.append((f, kind, d + ' (in comprehension)'))

    def struct_dictcomp(self, n):
        """{K(k): F(v) for k, v in value.items()} over a dict-shaped value tree, F a recursive function with a spec:
        the entry-lifting of the spec (keys kept; a key-checking wrapper K only contributes its raise condition)."""
        if len(n.generators) != 1:
            return None
        g = n.generators[0]
        src = self.struct_source(g.iter)
        if src is None:
            return None
        children, shape, via, ok = src
        if shape != 'ents' or via != 'items' or g.ifs:
            raise Unsupported('dict comprehension over a value tree must iterate .items() without filters')
        self.may_raise.append((ok, 'TypeError', 'items() of a non-dict value'))
        tgt = g.target
        if not (isinstance(tgt, ast.Tuple) and len(tgt.elts) == 2 and all(isinstance(e, ast.Name) for e in tgt.elts)):
            raise Unsupported('items() target must be (k, v)')
        keyvar, itemvar = tgt.elts[0].id, tgt.elts[1].id
        k = n.key
        if isinstance(k, ast.Name) and k.id == keyvar:
            pass
        elif isinstance(k, ast.Call) and isinstance(k.func, ast.Name) and k.args and isinstance(k.args[0], ast.Name) and k.args[0].id == keyvar \
                and getattr(self.eng.resolve_function(k.func.id), 'key_check', False):
            pass
        else:
            raise Unsupported('dict comprehension key over a value tree must be the key itself (optionally through a key check)')
        v = n.value
        c = None
        if isinstance(v, ast.Call):
            f = v.func
            c = self.eng.resolve_function(f.id) if isinstance(f, ast.Name) else None
            if c is None and isinstance(f, ast.Attribute):
                try:
                    c = self.eng.method_contract_for(self.ev(f.value), f.attr)
                except (KeyError, Unsupported):
                    c = None
        if c is None or not c.spec or not any(isinstance(a, ast.Name) and a.id == itemvar for a in list(v.args) + [kw.value for kw in v.keywords]):
            raise Unsupported('dict comprehension value over a value tree must be a spec function of the item')
        lifted = c.lift.get('map_ents')
        if not lifted:
            raise Unsupported(f'{c.key} declares no map_ents lifting')
        self.lift_requires(c, children, 'ents')
        self.lift_raises(c, children, 'ents')
        self.eng.count_use(c)
        return SV(U('PV'), self.ctx.dt_info['PDict'][2](self.eng.rec_function(lifted)(children.z)))      # a dict display builds a Python dict

    def ev_DictComp(self, n):
        sd = self.struct_dictcomp(n)
        if sd is not None:
            return sd
        if len(n.generators) != 1:
            raise Unsupported('nested dict comprehension')
        g = n.generators[0]
        it = self.ev(g.iter)
        dom_t, member_fn, bind_fn = self.iter_domain(it, g.target)

        def body(k):
            frames = self.st.frames + [bind_fn(k)]
            e = self.sub(frames=frames)
            conds = [self.eng.truth(e.ev(c)) for c in g.ifs]
            return e, z3.And([member_fn(k)] + conds)
        probe_k = self.ctx.fresh(dom_t, 'probe')
        pe = self.sub(frames=self.st.frames + [bind_fn(probe_k)])
        saved = pe.may_raise
        pe.may_raise = []
        kprobe = pe.ev(n.key)
        vprobe = pe.ev(n.value)
        pe.may_raise = saved
        kt = kprobe.t
        if z3.eq(kprobe.z, probe_k) and dom_t == U('Inst') and self.hint is not None and self.hint.k == 'map' and self.hint.args[0] == U('Task'):
            return self.dictcomp_by_value(n, g, dom_t, body)
        if not z3.eq(kprobe.z, probe_k):
            raise Unsupported('dict comprehension key must be the iteration key')
        vt = vprobe.t
        dom = self.ctx.set_comp(dom_t, lambda k: body(k)[1])
        val = self.ctx.fresh_lifted(dom_t, vt, 'dcomp')

        def defn(k):
            e, c = body(k)
            saved2 = e.may_raise
            e.may_raise = []
            v = e.ev(n.value)
            e.may_raise = saved2
            return z3.Implies(c, self.ctx.eq(vt, self.ctx.select(vt, val, k), self.eng.coerce(v, vt).z))
        self.st.assume(self.ctx.forall([dom_t], defn))
        self.comp_safety(dom_t, body, [n.key, n.value])
        return SV(MAP(dom_t, vt), {'dom': dom, 'val': val})

    def dictcomp_by_value(self, n, g, dom_t, body):
        """{i: e(i) for i in insts}: a dict keyed by task *value* (== / hash), so equal instances share one key."""
        f = self.ctx.func('Inst_to_Task', [U('Inst')], U('Task'))
        probe = self.ctx.fresh(dom_t, 'probe')
        e0, _ = body(probe)
        e0.may_raise = []
        sv0 = e0.ev(n.value)
        vt = sv0.t
        kt = U('Task')
        dom = self.ctx.set_comp(kt, lambda k: self.ctx.exists([dom_t], lambda i: z3.And(body(i)[1], f(i) == k)))
        val = self.ctx.fresh_lifted(kt, vt, 'dcompv')

        def defn(i):
            e, c = body(i)
            saved = e.may_raise
            e.may_raise = []
            v = e.ev(n.value)
            e.may_raise = saved
            return z3.Implies(c, self.ctx.eq(vt, self.ctx.select(vt, val, f(i)), v.z))
        self.st.assume(self.ctx.forall([dom_t], defn))
        self.comp_safety(dom_t, body, [n.key, n.value])
        out = SV(MAP(kt, vt), {'dom': dom, 'val': val})
        return out

    def is_injective_view(self, sv, k):
        return False

    def iter_domain(self, it: SV, target):
        """(key type, membership fn, binder fn) for iterating `it` with `target`."""
        t = it.t
        if t.k in ('set', 'list'):
            if not isinstance(target, ast.Name):
                raise Unsupported('tuple target over a plain collection')
            et = t.args[0]
            return et, (lambda k: z3.Select(it.z, k)), (lambda k: {target.id: SV(et, k)})
        if t.k == 'map':
            kt = t.args[0]
            if not isinstance(target, ast.Name):
                raise Unsupported('tuple target over dict keys')
            return kt, (lambda k: z3.Select(it.z['dom'], k)), (lambda k: {target.id: SV(kt, k)})
        if t.k == 'mapitems':
            m = it.z
            kt, vt = m.t.args
            if not (isinstance(target, ast.Tuple) and len(target.elts) == 2 and isinstance(target.elts[0], ast.Name)):
                raise Unsupported('items() target must be (k, v)')

            def bind(k):
                b = {target.elts[0].id: SV(kt, k)}
                self.bind_target(b, target.elts[1], SV(vt, self.ctx.select(vt, m.z['val'], k)))
                return b
            return kt, (lambda k: z3.Select(m.z['dom'], k)), bind
        if t.k == 'mapvalues':
            m = it.z
            kt, vt = m.t.args

            def bind(k):
                b = {}
                self.bind_target(b, target, SV(vt, self.ctx.select(vt, m.z['val'], k)))
                return b
            return kt, (lambda k: z3.Select(m.z['dom'], k)), bind
        if t.k == 'dsetitems':
            d = it.z
            kt, et = d.t.args
            if not (isinstance(target, ast.Tuple) and len(target.elts) == 2):
                raise Unsupported('items() target must be (k, v)')
            # the keys present in a defaultdict are an unknown superset of those with a non-empty value
            dom = self.ctx.fresh(SET(kt), 'ddkeys')
            self.st.assume(self.ctx.forall([kt], lambda k: z3.Implies(
                z3.Not(self.ctx.set_is_empty(et, z3.Select(d.z, k))), z3.Select(dom, k))))

            def bind(k):
                return {target.elts[0].id: SV(kt, k), target.elts[1].id: SV(SET(et), z3.Select(d.z, k))}
            return kt, (lambda k: z3.Select(dom, k)), bind
        raise Unsupported(f'iteration over {t}')

    def bind_target(self, b: dict, target, sv: SV):
        if isinstance(target, ast.Name):
            b[target.id] = sv
        elif isinstance(target, ast.Tuple) and sv.t.k == 'tuple' and len(target.elts) == len(sv.t.args):
            for e, a, z in zip(target.elts, sv.t.args, sv.z):
                self.bind_target(b, e, SV(a, z))
        else:
            raise Unsupported('unpacking target')

    # -- lambda only as argument of spec quantifiers
    def ev_Lambda(self, n):
        return SV(T('lambda'), n)

    # -- calls
    def ev_Call(self, n):
        return CallEval(self).call(n)


# --------------------------------------------------------------------------- pure calls
class CallEval:
    def __init__(self, ev: Evaluator):
        self.e = ev
        self.eng = ev.eng
        self.ctx = ev.ctx
        self.R = ev.R

    def call(self, n: ast.Call) -> SV:
        f = n.func
        if isinstance(f, ast.Name):
            nm = f.id
            if self.e.st.has(nm) and self.e.st.get(nm).t.k == 'closure':
                raise Unsupported(f'closure call {nm}() inside an expression')
            h = getattr(self, 'fn_' + nm, None)
            if h is not None and (nm not in SPEC_FUNCS or self.e.spec or nm in ('len',)):
                return h(n)
            if self.e.spec and len(n.args) == 1 and nm in self.R.view_names:
                return self.view(nm, n)
            if nm in self.R.macros and self.e.spec:
                return self.macro(nm, n)
            if nm in self.R.deffuncs and self.e.spec:
                return self.deffunc(nm, n)
            dti = getattr(self.ctx, 'dt_info', {})
            if nm in dti and (self.e.spec or dti[nm][0] != 'acc'):
                return self.dtop(nm, n)
            if nm in self.R.recfuncs and self.e.spec:
                return self.recfunc(nm, n)
            if nm in self.R.funcs:
                return self.ufunc(nm, n)
            if nm in self.eng.exc_kinds() and not self.e.st.has(nm):
                return self.eng.new_exc(self.e.st, nm)        # exception object construction, e.g. TaskDiedError()
            # record constructor `Cls()` of a record sort with a declared ctor: a fresh object
            for sort, rec in self.R.records.items():
                if rec.ctor and rec.cls.split(':')[-1] == nm and not n.args and not n.keywords:
                    return self.eng.new_record(self.e.st, sort)
                if rec.ctor_kwargs and rec.cls.split(':')[-1] == nm and not n.args:
                    x = self.eng.new_record(self.e.st, sort)
                    given = {k.arg: self.e.ev(k.value) for k in n.keywords}
                    if set(given) != set(rec.immutable):
                        raise Unsupported(f'{nm}(...) keywords do not match the declared record fields')
                    for fld, v in given.items():
                        ft = parse_type(rec.immutable[fld])
                        fv = self.eng.apply_func(f'{sort}.{fld}', [x], ft, [U(sort)])
                        self.e.st.assume(self.ctx.eq(ft, fv.z, self.eng.coerce(v, ft).z))
                    return x
            c = self.eng.resolve_function(nm)
            if c is not None and c.pure:
                return self.pure_contract(c, None, n)
            raise Unsupported(f'call to {nm}() inside an expression')
        if isinstance(f, ast.Attribute):
            return self.method(n, f)
        raise Unsupported('call form')

    # ---- spec functions
    def fn_is_identifier(self, n):
        a = self.e.ev(n.args[0])
        ch = z3.Union(z3.Range('a', 'z'), z3.Range('A', 'Z'), z3.Range('0', '9'), z3.Re('_'))
        return SV(BOOL, z3.InRe(a.z, z3.Plus(ch)))

    def fn_is_hex40(self, n):
        a = self.e.ev(n.args[0])
        ch = z3.Union(z3.Range('0', '9'), z3.Range('a', 'f'))
        return SV(BOOL, z3.InRe(a.z, z3.Loop(ch, 40, 40)))

    def fn_is_key_shape(self, n):
        """(pickle__|'') identifier '__' 40 hex digits -- the shape of the keys the provided caches build."""
        a = self.e.ev(n.args[0])
        ch = z3.Union(z3.Range('a', 'z'), z3.Range('A', 'Z'), z3.Range('0', '9'), z3.Re('_'))
        hx = z3.Union(z3.Range('0', '9'), z3.Range('a', 'f'))
        return SV(BOOL, z3.InRe(a.z, z3.Concat(z3.Union(z3.Re('pickle__'), z3.Re('')), z3.Plus(ch), z3.Re('__'), z3.Loop(hx, 40, 40))))

    def fn_concat(self, n):
        parts = [self.e.ev(x).z for x in n.args]
        return SV(STR, z3.Concat(*parts))

    def fn_contains(self, n):
        a = self.e.ev(n.args[0])
        b = self.e.ev(n.args[1])
        return SV(BOOL, z3.Contains(a.z, b.z))

    def fn_some(self, n):
        v = self.e.ev(n.args[0])
        return SV(OPT(v.t), {'none': z3.BoolVal(False), 'v': v.z})

    def fn_exc_is(self, n):
        e_ = self.e.ev(n.args[0])
        if e_.t.k == 'opt':
            return SV(BOOL, z3.And(z3.Not(e_.z['none']), self.eng.is_kind(e_.z['v'], n.args[1].value)))
        return SV(BOOL, self.eng.is_kind(e_.z, n.args[1].value))

    def fn_sadd(self, n):
        s_ = self.e.ev(n.args[0])
        x = self.eng.coerce(self.e.ev(n.args[1]), s_.t.args[0])
        return SV(s_.t, z3.Store(s_.z, x.z, True))

    def fn_sdel(self, n):
        s_ = self.e.ev(n.args[0])
        x = self.eng.coerce(self.e.ev(n.args[1]), s_.t.args[0])
        return SV(s_.t, z3.Store(s_.z, x.z, False))

    def deffunc(self, nm, n):
        d = self.R.deffuncs[nm]
        pts = [parse_type(t) for t in d['params'].values()]
        args = []
        for a, t in zip(n.args, pts):
            v = self.e.ev(a, t)
            v = self.e.fix_empty(v, SV(t, None))[0] if v.t.k == 'emptycoll' else v
            if v.t.k in ('set', 'list') and t.k in ('set', 'list'):
                v = SV(t, v.z)
            args.append(self.eng.coerce(v, t))
        rt = parse_type(d['res'])
        if self.ctx.finite or getattr(self.eng, 'inline_deffuncs', False):
            sub = State([dict(zip(d['params'], args))], self.e.heap, self.e.st.pc, self.e.st.old)
            e = Evaluator(self.eng, sub, spec=True, heap=self.e.heap)
            v = e.ev(parse_spec(d['body']))
            return SV(rt, v.z) if v.t.k in ('set', 'list') and rt.k in ('set', 'list') else v
        return self.eng.apply_func(nm, args, rt, pts)

    def _lambda_quant(self, n, univ):
        *sorts, lam = n.args
        if not isinstance(lam, ast.Lambda):
            raise SpecError('quantifier needs a lambda')
        ts = [parse_type(s.value) for s in sorts]
        names = [a.arg for a in lam.args.args]
        if len(names) != len(ts):
            raise SpecError('quantifier arity')

        def body(*ks):
            frames = self.e.st.frames + [{nm: SV(t, k) for nm, t, k in zip(names, ts, ks)}]
            e = self.e.sub(frames=frames)
            return self.eng.truth(e.ev(lam.body))
        pat = None
        for kw in n.keywords:
            if kw.arg == 'pat' and isinstance(kw.value, ast.Lambda):
                def pat(*ks, _l=kw.value):
                    frames = self.e.st.frames + [{nm: SV(t, k) for nm, t, k in zip(names, ts, ks)}]
                    e = self.e.sub(frames=frames)
                    return e.ev(_l.body).z
        return SV(BOOL, (self.ctx.forall if univ else self.ctx.exists)(ts, body, pat, subst=True) if pat else
                  (self.ctx.forall if univ else self.ctx.exists)(ts, body, subst=True))

    def fn_forall(self, n):
        return self._lambda_quant(n, True)

    def fn_exists(self, n):
        return self._lambda_quant(n, False)

    def fn_implies(self, n):
        a = self.eng.truth(self.e.ev(n.args[0]))
        b = self.eng.truth(self.e.ev(n.args[1]))
        return SV(BOOL, z3.Implies(a, b))

    def fn_iff(self, n):
        a = self.eng.truth(self.e.ev(n.args[0]))
        b = self.eng.truth(self.e.ev(n.args[1]))
        return SV(BOOL, a == b)

    def fn_ite(self, n):
        c = self.eng.truth(self.e.ev(n.args[0]))
        a = self.e.ev(n.args[1])
        b = self.e.ev(n.args[2], a.t)
        a, b = self.e.fix_empty(a, b)
        a, b = self.eng.unify(a, b)
        return SV(a.t, self.ctx.ite(a.t, c, a.z, b.z))

    def fn_old(self, n):
        e = Evaluator(self.eng, self.e.st, spec=True, heap=self.e.st.old)
        e.may_raise = self.e.may_raise
        return e.ev(n.args[0])

    def fn_card(self, n):
        v = self.e.ev(n.args[0])
        return self._len(v)

    def fn_dom(self, n):
        v = self.e.ev(n.args[0])
        if v.t.k != 'map':
            raise SpecError('dom of non-map')
        return SV(SET(v.t.args[0]), v.z['dom'])

    fn_keys = fn_dom

    def fn_empty(self, n):
        v = self.e.ev(n.args[0])
        if v.t.k in ('set', 'list'):
            return SV(BOOL, self.ctx.set_is_empty(v.t.args[0], v.z))
        if v.t.k == 'map':
            return SV(BOOL, self.ctx.set_is_empty(v.t.args[0], v.z['dom']))
        if v.t.k == 'emptycoll':
            return SV(BOOL, z3.BoolVal(True))
        raise SpecError(f'empty() of {v.t}')

    def fn_subset(self, n):
        a = self.e.ev(n.args[0])
        b = self.e.ev(n.args[1], a.t)
        return SV(BOOL, self.ctx.subset(a.t.args[0], a.z, b.z))

    def fn_disjoint(self, n):
        a = self.e.ev(n.args[0])
        b = self.e.ev(n.args[1], a.t)
        et = a.t.args[0]
        return SV(BOOL, self.ctx.forall([et], lambda k: z3.Not(z3.And(z3.Select(a.z, k), z3.Select(b.z, k)))))

    def fn_isnone(self, n):
        v = self.e.ev(n.args[0])
        if v.t.k == 'none':
            return SV(BOOL, z3.BoolVal(True))
        if v.t.k != 'opt':
            return SV(BOOL, z3.BoolVal(False))
        return SV(BOOL, v.z['none'])

    def fn_unopt(self, n):
        v = self.e.ev(n.args[0])
        if v.t.k != 'opt':
            return v
        return SV(v.t.args[0], v.z['v'])

    def fn_typed_empty(self, n):
        t = parse_type(n.args[0].value)
        if t.k in ('set', 'list'):
            return SV(t, self.ctx.empty_set(t.args[0]))
        if t.k == 'map':
            return self.e.empty_map(*t.args)
        raise SpecError(f'typed_empty({t})')

    def fn_INV(self, n):
        obj = self.e.ev(n.args[0])
        cls = self.eng.class_of(obj)
        conj = []
        for d in self.eng.class_chain(cls):
            for cl in d.invariant:
                if True:  # assumed regardless of the property slice
                    sub = State([{'self': obj}], self.e.heap, self.e.st.pc, self.e.st.old)
                    e = Evaluator(self.eng, sub, spec=True, heap=self.e.heap)
                    conj.append(self.eng.truth(e.ev(parse_spec(cl.expr))))
        return SV(BOOL, z3.And(conj) if conj else z3.BoolVal(True))

    def view(self, nm, n):
        """Abstract view VIEW(obj): the defining expression is looked up on the class of obj (abstraction function)."""
        obj = self.e.ev(n.args[0])
        for d in self.eng.class_chain(self.eng.class_of(obj)):
            if nm in d.views:
                sub = State([{'self': obj}], self.e.heap, self.e.st.pc, self.e.st.old)
                e = Evaluator(self.eng, sub, spec=True, heap=self.e.heap)
                return e.ev(parse_spec(d.views[nm]))
        raise SpecError(f'view {nm} not defined for {obj.t}')

    def macro(self, nm, n):
        params, text = self.R.macros[nm]
        args = [self.e.ev(a) for a in n.args]
        if len(args) != len(params):
            raise SpecError(f'macro {nm} arity')
        sub = State([dict(zip(params, args))], self.e.heap, self.e.st.pc, self.e.st.old)
        e = Evaluator(self.eng, sub, spec=True, heap=self.e.heap)
        return e.ev(parse_spec(text))

    def dtop(self, nm, n):
        kind, dtname, fn, info = self.ctx.dt_info[nm]
        if kind == 'ctor':
            args = [self.eng.coerce(self.e.ev(a, parse_type(t)), parse_type(t)) for a, t in zip(n.args, info)]
            return SV(U(dtname), fn(*[a.z for a in args]))
        v = self.eng.coerce(self.e.ev(n.args[0]), U(dtname))
        if kind == 'rec':
            return SV(BOOL, fn(v.z))
        return SV(parse_type(info), fn(v.z))

    def recfunc(self, nm, n):
        d = self.R.recfuncs[nm]
        pts = [parse_type(t) for t in d['params'].values()]
        args = [self.eng.coerce(self.e.ev(a, t), t) for a, t in zip(n.args, pts)]
        f = self.eng.rec_function(nm)
        return SV(parse_type(d['res']), f(*[a.z for a in args]))

    def ufunc(self, nm, n):
        arg_ts, res = self.R.funcs[nm]
        arg_ts = [parse_type(a) for a in arg_ts]
        args = [self.eng.coerce(self.e.ev(a), t) for a, t in zip(n.args, arg_ts)]
        return self.eng.apply_func(nm, args, parse_type(res), arg_ts)

    # ---- python builtins
    def _len(self, v: SV):
        t = v.t
        if t.k == 'set':
            return SV(INT, self.ctx.card(t.args[0], v.z))
        if t.k == 'map':
            return SV(INT, self.ctx.card(t.args[0], v.z['dom']))
        if t.k == 'list':
            # a list may hold duplicates: its length is only known to be >= the number of distinct elements
            n = self.ctx.fresh(INT, 'len')
            c = self.ctx.card(t.args[0], v.z)
            self.e.st.assume(n >= c)
            self.e.st.assume((n == 0) == (c == 0))
            return SV(INT, n)
        if t.k == 'emptycoll':
            return SV(INT, z3.IntVal(0))
        raise Unsupported(f'len of {t}')

    def fn_len(self, n):
        return self._len(self.e.ev(n.args[0]))

    def fn_max(self, n):
        a, b = [self.e.ev(x) for x in n.args]
        if a.t.k == 'int' and b.t.k == 'int':
            return SV(INT, z3.If(a.z >= b.z, a.z, b.z))
        raise Unsupported('max of non-ints')

    def fn_min(self, n):
        a, b = [self.e.ev(x) for x in n.args]
        if a.t.k == 'int' and b.t.k == 'int':
            return SV(INT, z3.If(a.z <= b.z, a.z, b.z))
        raise Unsupported('min of non-ints')

    def fn_set(self, n):
        if not n.args:
            if self.e.hint is not None and self.e.hint.k == 'set':
                return SV(self.e.hint, self.ctx.empty_set(self.e.hint.args[0]))
            if self.e.hint is not None and self.e.hint.k in ('set', 'list'):
                return SV(SET(self.e.hint.args[0]), self.ctx.empty_set(self.e.hint.args[0]))
            if self.e.hint is not None and self.e.hint.k == 'opt' and self.e.hint.args[0].k == 'set':
                return SV(self.e.hint.args[0], self.ctx.empty_set(self.e.hint.args[0].args[0]))
            return SV(T('emptycoll', (), 'set'), None)
        v = self.e.ev(n.args[0])
        return self._as_set(v, 'set')

    def fn_list(self, n):
        if not n.args:
            if self.e.hint is not None and self.e.hint.k in ('set', 'list'):
                return SV(T('list', (self.e.hint.args[0],)), self.ctx.empty_set(self.e.hint.args[0]))
            return SV(T('emptycoll', (), 'list'), None)
        v = self.e.ev(n.args[0])
        return self._as_set(v, 'list' if v.t.k == 'list' else 'set')

    fn_sorted = fn_list

    def fn_tuple(self, n):
        if n.args:
            v = self.e.ev(n.args[0])
            if v.t == U('PL'):
                return SV(U('PV'), self.ctx.dt_info['PTuple'][2](v.z))
            if v.t == U('PV'):
                dti = self.ctx.dt_info
                self.e.may_raise.append((z3.Or(dti['is_PList'][2](v.z), dti['is_PTuple'][2](v.z)), 'TypeError', 'tuple() of a non-sequence value'))
                return SV(U('PV'), dti['PTuple'][2](z3.If(dti['is_PList'][2](v.z), dti['litems'][2](v.z), dti['titems'][2](v.z))))
            return self._as_set(v, 'list' if v.t.k == 'list' else 'set')
        return self.fn_list(n)

    def fn_frozendict(self, n):
        v = self.e.ev(n.args[0])
        if v.t == U('PE'):
            return SV(U('PV'), self.ctx.dt_info['PFrozen'][2](v.z))
        if v.t == U('PV'):
            dti = self.ctx.dt_info
            self.e.may_raise.append((z3.Or(dti['is_PDict'][2](v.z), dti['is_PFrozen'][2](v.z)), 'TypeError', 'frozendict() of a non-mapping value'))
            return SV(U('PV'), dti['PFrozen'][2](z3.If(dti['is_PDict'][2](v.z), dti['dents'][2](v.z), dti['fents'][2](v.z))))
        raise Unsupported(f'frozendict({v.t})')

    def fn_dict(self, n):
        if n.args or not n.keywords:
            if not n.args and not n.keywords and self.e.hint is not None and self.e.hint.k == 'map':
                return self.e.empty_map(*self.e.hint.args)
            raise Unsupported('dict(...) with positional arguments')
        parts = [self.e.ev(k.value) for k in n.keywords]
        t = TUP(*[p.t for p in parts])
        names = [k.arg for k in n.keywords]
        known = self.R.named_tuples.get(str(t))
        if known is not None and known != names:
            raise Unsupported(f'dict(...) keywords {names} do not match the declared record {known}')
        return SV(t, tuple(p.z for p in parts))

    def _as_set(self, v: SV, kind):
        t = v.t
        if t.k == 'mapvalues' and v.z.t.args[1].k == 'u':
            m = v.z
            kt, vt = m.t.args
            r = self.ctx.set_comp(vt, lambda y: self.ctx.exists([kt], lambda k: z3.And(z3.Select(m.z['dom'], k), z3.Select(m.z['val'], k) == y)))
            return SV(T('list', (vt,)), r)
        if t.k in ('mapvalues', 'mapitems'):
            return v          # list(d.values()) / list(d.items()): an immutable snapshot of the view
        if t.k in ('set', 'list'):
            return SV(T(kind, t.args), v.z)
        if t.k == 'map':
            return SV(T(kind, (t.args[0],)), v.z['dom'])
        if t.k == 'mapvalues' and False:
            pass
        raise Unsupported(f'set()/list() of {t}')

    def fn_defaultdict(self, n):
        h = self.e.hint
        if h is not None and h.k == 'dset' and len(n.args) == 1 and isinstance(n.args[0], ast.Name) and n.args[0].id in ('set', 'list'):
            return SV(h, self.ctx.empty_dset(*h.args))
        raise Unsupported('defaultdict(...) outside a declared field of type DSet')

    def fn_OrderedSet(self, n):
        return self.fn_set(n)

    def fn_deque(self, n):
        return self.fn_list(n)

    def fn_type(self, n):
        v = self.e.ev(n.args[0])
        if v.t.k == 'u' and f'type_of_{v.t.name}' not in self.R.funcs and f'{v.t.name}_to_Task' in self.R.funcs:
            v = self.eng.coerce(v, U('Task'))
        if v.t.k == 'u' and f'type_of_{v.t.name}' in self.R.funcs:
            return self.eng.apply_func(f'type_of_{v.t.name}', [v], parse_type(self.R.funcs[f'type_of_{v.t.name}'][1]))
        raise Unsupported(f'type() of {v.t}')

    def fn_getattr(self, n):
        """`getattr(x, 'name'[, default])` with a constant name of a DECLARED field/attribute is the attribute read (the
        attribute exists on every object of that class, so the default is never used); the dynamic two-argument form
        over dataclass fields goes through its trusted contract."""
        if len(n.args) in (2, 3) and isinstance(n.args[1], ast.Constant) and isinstance(n.args[1].value, str):
            return self.e.ev(ast.copy_location(ast.Attribute(value=n.args[0], attr=n.args[1].value, ctx=ast.Load()), n))
        c = self.eng.resolve_function('getattr')
        if c is not None and c.pure and len(n.args) == 2:
            return self.pure_contract(c, None, n)
        raise Unsupported('getattr with a computed name and a default')

    def fn_id(self, n):
        v = self.e.ev(n.args[0])
        # id(x): object identity.  For an instance-sorted value the value itself *is* the identity.
        if v.t.k == 'u' and v.t.name in getattr(self.R, 'identity_sorts', ('Inst',)):
            return v
        if v.t == U('PV'):
            return self.eng.apply_func('pv_id', [v], U('Ident'))
        raise Unsupported(f'id() of {v.t}')

    def fn_isinstance(self, n):
        if isinstance(n.args[1], ast.Tuple):
            # isinstance(x, (A, B)) == isinstance(x, A) or isinstance(x, B)
            parts = [self.fn_isinstance(ast.copy_location(ast.Call(func=n.func, args=[n.args[0], c], keywords=[]), n)).z for c in n.args[1].elts]
            return SV(BOOL, z3.Or(parts) if parts else z3.BoolVal(False))
        v = self.e.ev(n.args[0])
        cls = n.args[1]
        cname = cls.id if isinstance(cls, ast.Name) else ast.unparse(cls)
        if v.t.k == 'u' and v.t.name == 'Exc':
            return SV(BOOL, self.eng.is_kind(v.z, cname))
        tests = getattr(self.R, 'isinstance_tests', {})
        key = (v.t.name if v.t.k == 'u' else str(v.t), cname)
        if key in tests:
            return self.eng.eval_spec_in(self.e.st, tests[key], {'x': v}, heap=self.e.heap)
        raise Unsupported(f'isinstance({v.t}, {cname})')

    def fn_hasattr(self, n):
        v = self.e.ev(n.args[0])
        if not (isinstance(n.args[1], ast.Constant) and isinstance(n.args[1].value, str)):
            raise Unsupported('hasattr with a computed name')
        key = (v.t.name if v.t.k == 'u' else str(v.t), n.args[1].value)
        tests = getattr(self.R, 'hasattr_tests', {})
        if key in tests:
            return self.eng.eval_spec_in(self.e.st, tests[key], {'x': v}, heap=self.e.heap)
        raise Unsupported(f'hasattr({v.t}, {n.args[1].value!r})')

    def fn_str(self, n):
        return SV(STR, self.ctx.fresh(STR, 'str'))

    def fn_bool(self, n):
        return SV(BOOL, self.eng.truth(self.e.ev(n.args[0])))

    def fn_cast(self, n):
        return self.e.ev(n.args[1])

    def fn_Counter(self, n):
        if not n.args:
            raise Unsupported('empty Counter()')
        v = self.e.ev(n.args[0])
        if v.t.k == 'map' and v.t.args[1].k == 'int':
            kt = v.t.args[0]
            if self.ctx.finite or True:
                arr = self.ctx.fresh_lifted(kt, INT, 'counter')
                self.e.st.assume(self.ctx.forall([kt], lambda k: z3.Select(arr, k) == z3.If(
                    z3.Select(v.z['dom'], k), z3.Select(v.z['val'], k), 0)))
            return SV(T('cnt', (kt,)), arr)
        raise Unsupported(f'Counter of {v.t}')

    # ---- methods (pure ones; mutators are statement-level)
    def method(self, n: ast.Call, f: ast.Attribute) -> SV:
        # module-qualified pure helpers
        dotted = ast.unparse(f)
        recv_node = f.value
        try:
            recv = self.e.ev(recv_node)
        except KeyError:
            c = self.eng.resolve_function(dotted)
            if c is not None and c.pure:
                return self.pure_contract(c, None, n)
            raise Unsupported(f'call {dotted}() inside an expression')
        if recv.t.k == 'opt' and recv.t.args[0].k == 'u':
            # method call on an Optional: fine where the code has tested it against None (proved from the path condition)
            self.e.may_raise.append((z3.Not(recv.z['none']), 'AttributeError', f'{dotted}() on None'))
            recv = SV(recv.t.args[0], recv.z['v'])
        t = recv.t
        m = f.attr
        if t.k == 'map':
            if m == 'keys':
                return SV(SET(t.args[0]), recv.z['dom'])
            if m == 'items':
                return SV(T('mapitems'), recv)
            if m == 'values':
                return SV(T('mapvalues'), recv)
            if m == 'get':
                k = self.eng.coerce(self.e.ev(n.args[0]), t.args[0])
                vt = t.args[1]
                got = SV(vt, self.ctx.select(vt, recv.z['val'], k.z))
                present = z3.Select(recv.z['dom'], k.z)
                if len(n.args) > 1:
                    d = self.eng.coerce(self.e.ev(n.args[1], vt), vt)
                    return SV(vt, self.ctx.ite(vt, present, got.z, d.z))
                o = OPT(vt)
                return SV(o, {'none': z3.Not(present), 'v': got.z})
        if t.k == 'dset':
            if m == 'get':
                k = self.eng.coerce(self.e.ev(n.args[0]), t.args[0])
                if len(n.args) > 1:
                    d = self.e.ev(n.args[1], SET(t.args[1]))
                    if d.t.k != 'emptycoll' and not (d.t.k == 'set'):
                        raise Unsupported('defaultdict.get default must be an empty set')
                    if d.t.k == 'set':
                        # absent == empty: only sound when the default is the empty set
                        if not z3.eq(d.z, self.ctx.empty_set(t.args[1])):
                            raise Unsupported('defaultdict.get default must be an empty set')
                    return SV(SET(t.args[1]), z3.Select(recv.z, k.z))
                raise Unsupported('defaultdict.get without default')
            if m == 'items':
                return SV(T('dsetitems'), recv)
        if t.k == 'u' and t.name in self.R.json_records and m == 'get' and n.args and isinstance(n.args[0], ast.Constant):
            has, val = self.e.json_field(recv, n.args[0].value)
            if val.t.k == 'opt':
                return SV(val.t, {'none': z3.Or(z3.Not(has), val.z['none']), 'v': val.z['v']})
            return SV(OPT(val.t), {'none': z3.Not(has), 'v': val.z})
        if t.k == 'str' and m in ('join', 'format', 'zfill', 'strip', 'lower', 'upper'):
            for a in n.args:
                try:
                    self.e.ev(a)
                except (Unsupported, KeyError):
                    pass
            return SV(STR, self.ctx.fresh(STR, 'strop'))       # text whose content no obligation depends on
        if t.k == 'str':
            if m == 'startswith':
                a = self.e.ev(n.args[0])
                return SV(BOOL, z3.PrefixOf(a.z, recv.z))
        if t.k in ('obj', 'u'):
            c = self.eng.method_contract_for(recv, m)
            if c is not None and c.pure:
                return self.pure_contract(c, recv, n)
            if c is not None:
                raise Unsupported(f'effectful call {dotted}() inside an expression')
        raise Unsupported(f'method {m} on {t}')

    def pure_contract(self, c: Contract, recv, n: ast.Call) -> SV:
        binds = self.eng.bind_args(self.e, c, n, recv)
        self.eng.count_use(c)
        # preconditions of a pure callee become implicit-raise style safety conditions
        for cl in c.requires:
            if self.eng.active(cl):
                ok = self.eng.eval_clause(self.e.st, cl, binds, heap=self.e.heap)
                self.e.may_raise.append((ok, 'Precondition', f'{c.key} requires {cl.label()}'))
        if c.defn:
            return self.eng.eval_spec_in(self.e.st, c.defn, binds, heap=self.e.heap)
        rt = parse_type(c.returns)
        res = self.eng.fresh_sv(rt, 'pure_' + c.key.split('.')[-1])
        b2 = dict(binds)
        b2['result'] = res
        for cl in c.ensures:
            if True:  # assumed regardless of the property slice
                self.e.st.assume(self.eng.eval_clause(self.e.st, cl, b2, heap=self.e.heap, old=self.e.heap))
        return res
