"""Syntactic obligations over the real source (frames that are properties of the program text, decided by an AST scan).

purity_frame: on the call graph of the cache key no construct whose value can differ between processes, sessions or
hash seeds is used: id(), hash(), set iteration, clocks, randomness, environment, object reprs of unordered containers.
"""
from __future__ import annotations

import ast

BANNED_CALLS = {'id', 'hash', 'set', 'frozenset', 'vars', 'dir', 'globals', 'locals', 'input', 'open', 'repr'}
BANNED_ATTR_ROOTS = {'time', 'random', 'os', 'uuid', 'datetime', 'secrets', 'socket', 'sys'}
ALLOWED = {'hashlib', 'json'}


def purity_frame(index, fkeys, name):
    """-> obligation records: one per function on the call graph."""
    out = {}
    for fkey in fkeys:
        try:
            node, seg, l0, l1 = index.find(fkey)
        except KeyError as ex:
            out[f'syntactic:{name}/{fkey}'] = dict(name=f'syntactic:{name}/{fkey}', function=fkey, kind='syntactic', serves=[], status='open',
                                                  finite='n/a', unbounded='n/a', backend='ast scan', time_s=0.0, instances=1, model='', reason=str(ex))
            continue
        bad = []
        for d in getattr(node, 'decorator_list', []):
            txt = ast.unparse(d)
            if any(w in txt for w in ('lru_cache', 'functools.cache', 'cached_property', 'memo')):
                bad.append(f'line {d.lineno}: decorator @{txt} memoises by ==/hash of the arguments (tasks that are == but differ in value types would share a key, and the key would depend on construction history)')
        for n in ast.walk(node):
            if isinstance(n, ast.Call) and isinstance(n.func, ast.Name) and n.func.id in BANNED_CALLS:
                bad.append(f'line {n.lineno}: call of {n.func.id}()')
            if isinstance(n, ast.Attribute):
                root = n
                while isinstance(root, ast.Attribute):
                    root = root.value
                if isinstance(root, ast.Name) and root.id in BANNED_ATTR_ROOTS:
                    bad.append(f'line {n.lineno}: use of {ast.unparse(n)}')
            if isinstance(n, (ast.Set, ast.SetComp)):
                bad.append(f'line {n.lineno}: set display/comprehension (iteration order depends on the hash seed)')
            if isinstance(n, ast.Call) and isinstance(n.func, ast.Attribute) and isinstance(n.func.value, ast.Name) and n.func.value.id == 'self' \
                    and n.func.attr.startswith('_') and fkey.split('.')[-1] == 'cache_key':
                # a private helper introduced on the key's call graph: scanned as well
                cls_key = fkey.rsplit('.', 1)[0]
                try:
                    hn, _, _, _ = index.find(f'{cls_key}.{n.func.attr}')
                    for d in hn.decorator_list:
                        txt = ast.unparse(d)
                        if any(w in txt for w in ('lru_cache', 'functools.cache', 'memo')):
                            bad.append(f'line {d.lineno}: helper {n.func.attr} is memoised with @{txt}')
                except KeyError:
                    pass
        out[f'syntactic:{name}/{fkey}'] = dict(
            name=f'syntactic:{name}/{fkey}', function=fkey, kind='syntactic', serves=[], status='refuted' if bad else 'discharged',
            finite='n/a', unbounded='n/a', backend='ast scan of the current source', time_s=0.0, instances=1,
            model='; '.join(bad), reason='')
    return out
