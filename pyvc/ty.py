"""PyVC type language and symbolic-value representation.

Types (strings in the sidecar contracts, parsed here):
  Int Bool Str                     SMT Int / Bool / String
  <Name>                           uninterpreted sort (Task, Type, Inst, Fut, ...); finite enum in finite scope
  Set[T]                           Array(T, Bool)
  Map[K,V]                         domain Array(K,Bool) + value arrays (V lifted pointwise)
  DSet[K,T]                        defaultdict(set): total Array(K, Array(T,Bool)), absent == empty
  Opt[T]                           (isnone: Bool, value: T)
  Tuple[A,B,...]                   python tuple of symbolic values
  Obj[Class]                       reference to a heap object, denoted by a path prefix
"""
from __future__ import annotations

from dataclasses import dataclass
from typing import Any


@dataclass(frozen=True)
class T:
    k: str                 # int bool str u set map dset opt tuple obj none
    args: tuple = ()
    name: str = ''

    def __str__(self):
        if self.k in ('int', 'bool', 'str'):
            return self.k.capitalize()
        if self.k == 'u':
            return self.name
        if self.k == 'obj':
            return f'Obj[{self.name}]'
        if self.k == 'none':
            return 'None'
        nm = {'set': 'Set', 'map': 'Map', 'dset': 'DSet', 'opt': 'Opt', 'tuple': 'Tuple', 'list': 'List', 'cnt': 'Cnt',
              'lift': 'Lift'}.get(self.k, self.k)
        return f"{nm}[{','.join(map(str, self.args))}]"


INT = T('int')
BOOL = T('bool')
STR = T('str')
NONE = T('none')


def U(name):
    return T('u', (), name)


def SET(e):
    return T('set', (e,))


def MAP(k, v):
    return T('map', (k, v))


def DSET(k, e):
    return T('dset', (k, e))


def OPT(e):
    return T('opt', (e,))


def TUP(*a):
    return T('tuple', tuple(a))


def OBJ(name):
    return T('obj', (), name)


def parse_type(s: str) -> T:
    s = s.strip()
    pos = 0

    def parse():
        nonlocal pos
        start = pos
        while pos < len(s) and (s[pos].isalnum() or s[pos] == '_'):
            pos += 1
        name = s[start:pos]
        args = []
        if pos < len(s) and s[pos] == '[':
            pos += 1
            while True:
                while s[pos] == ' ':
                    pos += 1
                args.append(parse())
                while s[pos] == ' ':
                    pos += 1
                if s[pos] == ',':
                    pos += 1
                    continue
                if s[pos] == ']':
                    pos += 1
                    break
                raise ValueError(f'bad type {s!r} at {pos}')
        if name == 'Int':
            return INT
        if name == 'Bool':
            return BOOL
        if name == 'Str':
            return STR
        if name == 'None':
            return NONE
        if name == 'Set':
            return SET(args[0])
        if name == 'Deque':
            return T('set', (args[0],), 'deque')     # duplicate-free FIFO: a set whose pop raises IndexError
        if name == 'VSet':
            return T('set', (args[0],), 'byvalue')   # OrderedSet of task objects: membership and add compare by VALUE (== / hash)
        if name == 'UList':
            return T('set', (args[0],), 'ulist')     # a list known to be duplicate-free (every append is proved to add a new element)
        if name == 'List':
            return T('list', (args[0],))
        if name == 'Cnt':
            return T('cnt', (args[0],))
        if name == 'Map':
            return MAP(args[0], args[1])
        if name == 'DSet':
            return DSET(args[0], args[1])
        if name == 'Opt':
            return OPT(args[0])
        if name == 'Tuple':
            return TUP(*args)
        if name == 'Obj':
            return OBJ(str(args[0]))
        if args:
            raise ValueError(f'unknown type constructor {name}')
        return U(name)

    t = parse()
    if pos != len(s):
        raise ValueError(f'trailing text in type {s!r}')
    return t


@dataclass
class SV:
    """A symbolic value: type + representation (see Ctx for the shape per type)."""
    t: T
    z: Any

    def __repr__(self):
        return f'SV<{self.t}>({self.z})'
