"""Sidecar contract registry.

Contracts live in /verif/contracts/*.py and are keyed by `module:qualname` of the real function in
/repo.  Nothing here touches /repo.  Clause texts are Python expressions; the same text is compiled
to SMT by the engine and evaluated natively by the replay harness.
"""
from __future__ import annotations

import hashlib
import json
from dataclasses import dataclass, field


@dataclass
class Clause:
    expr: str
    name: str = ''
    serves: tuple = ()          # property ids this clause is proved for / may be assumed for

    def label(self):
        return self.name or ' '.join(self.expr.split())


def C(expr, name='', serves=()):
    if isinstance(expr, Clause):
        return expr
    if isinstance(serves, str):
        serves = (serves,)
    return Clause(expr=expr, name=name, serves=tuple(serves))


def _clauses(xs):
    return [C(x) if not isinstance(x, (tuple, list)) else C(*x) for x in (xs or [])]


@dataclass
class ClassDecl:
    key: str                                  # module:ClassName
    fields: dict = field(default_factory=dict)        # name -> type string (real attributes)
    ghost: dict = field(default_factory=dict)         # name -> type string (never written by code)
    invariant: list = field(default_factory=list)     # [Clause]
    pure: dict = field(default_factory=dict)          # property/method name -> defining expression (spec side)
    bases: tuple = ()                                  # keys of base-class decls (for method lookup)
    views: dict = field(default_factory=dict)         # VIEW name -> expression over self (macro)
    ghost_init: dict = field(default_factory=dict)    # ghost name -> expression: its value in a freshly allocated object


@dataclass
class RecordDecl:
    sort: str
    cls: str = ''                             # module:ClassName of the real class, if any
    mutable: dict = field(default_factory=dict)
    immutable: dict = field(default_factory=dict)
    pure: dict = field(default_factory=dict)
    obj_attrs: dict = field(default_factory=dict)     # dotted attribute path -> class name of the (stateless) object it denotes
    ctor_kwargs: bool = False                          # constructor takes the immutable fields as keyword arguments
    ctor: dict = field(default_factory=dict)          # initial values of mutable fields for `Cls()`; presence enables the constructor
    ctor_assume: list = field(default_factory=list)   # [Clause] ASSUMED about a freshly constructed object (`result`); listed as assumptions
    value: bool = False                                # a frozen dataclass compared by its fields: a constructed value may equal an existing one


@dataclass
class Contract:
    key: str                                  # module:qualname
    params: dict = field(default_factory=dict)        # name -> type string (ordered; excludes self)
    self_type: str = ''                       # 'Obj[Class]' | record sort | '' (free function)
    returns: str = 'None'
    requires: list = field(default_factory=list)
    ensures: list = field(default_factory=list)
    raises: dict = field(default_factory=dict)        # ExcKind -> [Clause] post-state on that exceptional exit
    frame: list = field(default_factory=list)         # heap paths relative to self ('self.f', 'Fut._state') that may change
    ghost_exit: dict = field(default_factory=dict)    # ghost path -> expression for its new value at normal exit
    candidates: list = field(default_factory=list)    # loop-invariant candidate pool [Clause]
    yields: list = field(default_factory=list)        # per-yield clauses (generators); `value` is the yielded value
    rely: list = field(default_factory=list)          # heap paths the consumer may change while suspended at a yield
    pure: bool = False                        # callable inside expressions; no state change
    defn: str = ''                            # for pure functions: result == defn (inlined at call sites)
    trusted: bool = False                     # external / assumed: used at call sites, never verified
    serves: tuple = ()
    defaults: dict = field(default_factory=dict)      # param -> python literal default
    display: tuple = ()                       # names of display-only locals (statements writing only these are dropped)
    locals: dict = field(default_factory=dict)        # local name -> type string where inference needs help
    abstract: bool = False                    # contract of an abstract method (no body to verify)
    ignored_kwargs: tuple = None              # with varargs on a TRUSTED contract: the only extra keywords the assumed contract is valid for (None = any)
    varargs: bool = False                     # extra positional/keyword arguments at call sites are ignored (opaque)
    at_call: dict = field(default_factory=dict)       # callee name -> [Clause] asserted in the caller just before each such call
    ghost_after: dict = field(default_factory=dict)   # callee name -> {ghost path: expr}: ghost update performed right after each such call (`result` bound)
    assume_after: dict = field(default_factory=dict)  # callee name -> [Clause] ASSUMED right after each such call (`result` bound); listed as assumptions
    ghost_at_exit: dict = field(default_factory=dict)  # ghost path -> expression over the EXIT state (may mention cand_locals)
    binds_fields: dict = field(default_factory=dict)   # for __init__ contracts: object-typed field -> parameter it aliases
    interrupt_exit: list = field(default_factory=list)  # C14: clauses at an exit reached after an interrupt (may mention cand_locals)
    pylists: bool = False                     # list literals are python-level lists (unrolled iteration)
    spec: str = ''                            # name of the spec function this (pure, recursive) function computes
    lift: dict = field(default_factory=dict)          # comprehension liftings of `spec`: {'concat_list':..., 'concat_vals':..., 'map_list':..., 'map_ents':...}
    lift_pred: dict = field(default_factory=dict)     # requires-predicate name -> {'list': lifted, 'ents': lifted}
    lift_raises: dict = field(default_factory=dict)   # exception kind -> {'list': definedness predicate over PL, 'ents': ... over PE}
    annot: dict = field(default_factory=dict)         # per-function meaning of annotation names (e.g. {'Task': 'Inst', 'int': 'Inst'})
    fault_sites: bool = False                 # C12: name exceptional-exit obligations by the fault site (trusted primitive + exception) that was taken
    crash_cond: list = field(default_factory=list)    # C13: clauses that must hold at every crash point (statement boundaries and fault post-states)
    opaque_tests: dict = field(default_factory=dict)  # source text of a boolean expression -> spec expression that stands for it
    key_check: bool = False                   # a pure pass-through that only checks a dict key (ensure_dict_key_str)
    reveal: tuple = ()                        # recursive spec functions whose definitions this function's proof may unfold
    assume_unreachable: tuple = ()            # source texts of `if` tests assumed False (each listed as an assumption)
    cand_locals: tuple = ()                   # locals that candidates may mention besides __done__/__ret__
    ghost_yield: dict = field(default_factory=dict)
    classmethod_of: str = ''                  # for a @classmethod: the class that `cls` denotes (assumed: called on the defining class)
    rely_ensures: list = field(default_factory=list)
    note: str = ''

    def sha(self):
        d = {k: (v if not isinstance(v, list) else [getattr(c, 'expr', c) for c in v]) for k, v in self.__dict__.items()
             if k not in ('raises',)}
        d['raises'] = {k: [c.expr for c in v] for k, v in self.raises.items()}
        return hashlib.sha256(json.dumps(d, sort_keys=True, default=str).encode()).hexdigest()[:16]


class Registry:
    def __init__(self):
        self.classes: dict[str, ClassDecl] = {}
        self.records: dict[str, RecordDecl] = {}
        self.contracts: dict[str, Contract] = {}
        self.enums: dict[str, list] = {}
        self.funcs: dict[str, tuple] = {}         # uninterpreted spec functions: name -> ([arg types], res type)
        self.macros: dict[str, tuple] = {}        # spec macros: name -> ([param names], expression)
        self.axioms: list = []                    # [Clause] closed spec axioms (assumed; listed in evidence)
        self.lemmas: dict[str, dict] = {}         # lemma name -> {hyps:[...], goal: str, vars: {...}, serves}
        self.lemma_groups: dict[str, list] = {}   # lemma proved by cases -> names of its sub-lemmas
        self.scope: dict[str, int] = {}
        self.exc_parents: dict[str, str] = {}     # exception kind -> parent kind
        self.transparent_cms: set = set()         # context managers treated as transparent
        self.class_of_sort: dict[str, str] = {}
        self.deffuncs: dict[str, dict] = {}
        self.aliases: dict[tuple, str] = {}       # (sort or class name, method) -> contract key
        self.globals: dict[str, str] = {}         # module-level mutable globals: name -> type
        self.named_tuples: dict[str, list] = {}   # str(tuple type) -> field names
        self.isinstance_tests: dict[tuple, str] = {}   # (sort, class name) -> spec expression over x
        self.identity_sorts: tuple = ('Inst',)
        self.file_sorts: tuple = ()
        self.global_objects: dict = {}            # module-level singleton objects: name -> class name
        self.json_records: dict = {}              # sort -> {json key: type}: dict literals / loaded documents with constant string keys
        self.with_exit: dict = {}                 # handle sort -> (contract key on normal body exit, contract key on exceptional body exit)
        self.datatypes_late: list = []            # groups that refer to other datatypes (declared after them)
        self.datatypes: list = []                 # [(name, [(ctor, [(field, type)])])] mutually recursive group(s)
        self.recfuncs: dict = {}                  # name -> dict(params={n: type}, res=type, body=expr)
        self.const_exprs: dict = {}               # dotted module constants (os.path.sep) -> spec expression
        self.view_names: set = set()
        self.const_names: dict = {}               # module-level names used as opaque values: name -> sort

    # -- declaration helpers (used by sidecar files) -----------------------
    def enum(self, name, members):
        self.enums[name] = list(members)

    def func(self, name, args, res):
        self.funcs[name] = (list(args), res)

    def json_record(self, sort, fields):
        """A JSON object with a fixed vocabulary of string keys, as a datatype: per key a presence flag and a value
        (plus a null flag for optional values), so structural equality of documents is datatype equality."""
        self.json_records[sort] = dict(fields)
        flds = []
        for k, t in fields.items():
            kk = k.replace('-', '_')
            flds.append((f'{sort}_has_{kk}', 'Bool'))
            if t.startswith('Opt['):
                flds.append((f'{sort}_null_{kk}', 'Bool'))
                flds.append((f'{sort}_val_{kk}', t[4:-1]))
            else:
                flds.append((f'{sort}_val_{kk}', t))
        self.datatypes_late.append([(sort, [(f'Mk{sort}', flds)])])

    def datatype_group(self, group):
        self.datatypes.append(group)

    def recfunc(self, name, params, res, body):
        self.recfuncs[name] = dict(params=dict(params), res=res, body=body)

    def deffunc(self, name, params, res, body, lemmas=()):
        """A *defined* spec function: inlined in finite scope; in unbounded mode an uninterpreted symbol with its
        definitional axiom plus `lemmas` (each proved from the definition alone before it is used)."""
        self.deffuncs[name] = dict(params=dict(params), res=res, body=body, lemmas=[C(l) for l in lemmas])

    def macro(self, name, params, expr):
        self.macros[name] = (list(params), expr)

    def axiom(self, expr, name='', serves=()):
        self.axioms.append(C(expr, name, serves))

    def cls(self, key, **kw):
        kw['invariant'] = _clauses(kw.get('invariant'))
        self.classes[key] = ClassDecl(key=key, **kw)
        self.view_names |= set(kw.get('views', {}))
        return self.classes[key]

    def implements(self, key, base, **kw):
        """Contract of an implementing method = the abstract method's contract (same clause texts, read through
        the implementing class's views) plus implementation-specific frame / candidates / extra clauses."""
        import copy as _copy
        b = self.contracts[base]
        c = _copy.deepcopy(b)
        c.key = key
        c.abstract = False
        c.self_type = kw.pop('self_type')
        c.frame = list(kw.pop('frame', []))
        c.candidates = _clauses(kw.pop('candidates', []))
        c.requires = c.requires + _clauses(kw.pop('extra_requires', []))
        c.ensures = c.ensures + _clauses(kw.pop('extra_ensures', []))
        for k, v in kw.items():
            if k == 'raises':
                c.raises = {kk: _clauses(vv) for kk, vv in v.items()}
            elif k in ('ensures', 'requires', 'yields', 'rely_ensures'):
                setattr(c, k, _clauses(v))
            else:
                setattr(c, k, v)
        self.contracts[key] = c
        return c

    def record(self, sort, **kw):
        self.records[sort] = RecordDecl(sort=sort, **kw)
        if kw.get('cls'):
            self.class_of_sort[sort] = kw['cls']
        return self.records[sort]

    def contract(self, key, **kw):
        for k in ('requires', 'ensures', 'candidates', 'yields', 'rely_ensures', 'interrupt_exit', 'crash_cond'):
            kw[k] = _clauses(kw.get(k))
        kw['raises'] = {k: _clauses(v) for k, v in (kw.get('raises') or {}).items()}
        if isinstance(kw.get('serves'), str):
            kw['serves'] = (kw['serves'],)
        c = Contract(key=key, **kw)
        self.contracts[key] = c
        return c

    def lemma(self, name, *, vars, hyps, goal, serves=(), note='', cases=None):
        """`cases`: {label: condition}.  The lemma is then proved as one sub-lemma per case (the condition added to the
        hypotheses) plus `cases-exhaustive` (the hypotheses imply that some case applies); asking for `name` proves all
        of them.  Keeps each solver query small."""
        if cases:
            subs = []
            hs = _clauses(hyps)
            conds = []
            for lab, cond in cases.items():
                # a case is `condition` or `(condition, [indices of the hypotheses this case uses])`: using fewer
                # hypotheses is sound and keeps quantified hypotheses out of queries that do not need them
                use = list(range(len(hs)))
                if isinstance(cond, tuple):
                    cond, use = cond
                conds.append(cond)
                sub = f'{name}/case-{lab}'
                self.lemmas[sub] = dict(vars=vars, hyps=[hs[i] for i in use] + [C(cond, f'case {lab}')], goal=C(goal), serves=tuple(serves), note=note)
                subs.append(sub)
            ex = f'{name}/cases-exhaustive'
            self.lemmas[ex] = dict(vars=vars, hyps=[], goal=C(' or '.join(f'({c})' for c in conds)), serves=tuple(serves),
                                   note='the case split of ' + name + ' covers every value')
            self.lemma_groups[name] = subs + [ex]
            return
        self.lemmas[name] = dict(vars=vars, hyps=_clauses(hyps), goal=C(goal), serves=tuple(serves), note=note)

    def alias(self, owner, meth, key):
        self.aliases[(owner, meth)] = key

    def exception(self, kind, parent):
        self.exc_parents[kind] = parent

    # -- lookups -------------------------------------------------------------
    def class_decl(self, key):
        return self.classes.get(key)

    def find_class_by_name(self, name):
        for k, v in self.classes.items():
            if k.split(':')[1] == name:
                return v
        return None

    def method_contract(self, class_key, meth):
        """Contract of `meth` looked up on the class then on its declared bases."""
        seen = set()
        todo = [class_key]
        while todo:
            ck = todo.pop(0)
            if ck in seen:
                continue
            seen.add(ck)
            c = self.contracts.get(f'{ck}.{meth}')
            if c is not None:
                return c
            d = self.classes.get(ck)
            if d:
                todo.extend(d.bases)
        return None

    def is_subkind(self, kind, parent):
        k = kind
        while k is not None:
            if k == parent:
                return True
            k = self.exc_parents.get(k)
        return False


def load_registry(paths):
    """Execute sidecar files; each receives `R` (the registry) and `C`."""
    R = Registry()
    for p in paths:
        src = open(p).read()
        exec(compile(src, p, 'exec'), {'R': R, 'C': C, '__file__': p})
    return R
