"""Property-level lemmas over the contracts alone (no code): validity checks that also measure whether the
contracts are strong enough to carry the property."""
from __future__ import annotations

import time

import z3

from .ctx import Ctx
from .engine import State
from .exec import Exec
from .run import install_axioms, registry
from .ty import SV, parse_type


def prove_lemmas(names, prop, tier):
    """Each lemma is decided in its own process (they are independent)."""
    if not names:
        return {}
    groups = registry().lemma_groups
    names = [s for nm in names for s in groups.get(nm, [nm])]
    from .procpool import TimedOut, run_jobs
    hard = 420 if tier == 'quick' else 2400
    parts = run_jobs(_prove_some, [([nm], prop, tier) for nm in names], min(6, len(names)), hard)
    out = {}
    for nm, p in zip(names, parts):
        if isinstance(p, dict):
            out.update(p)
        else:
            why = f'no answer within the hard limit of {hard}s' if isinstance(p, TimedOut) else f'lemma worker failed: {str(p)[-300:]}'
            out[f'lemma:{nm}'] = dict(name=f'lemma:{nm}', function='(lemma over contracts)', kind='lemma', serves=list(registry().lemmas[nm]['serves']), instances=1,
                                      model='', reason=why, status='open', finite='open', unbounded='open', backend='z3', time_s=float(hard))
    return out


def _prove_some(args):
    names, prop, tier = args
    out = {}
    R = registry()
    import os
    logp = os.environ.get('PYVC_LEMMA_LOG')
    for nm in names:
        L = R.lemmas[nm]
        if logp:
            open(logp, 'a').write(f'{time.time():.0f} start {nm} pid={os.getpid()}\n')
        rec = dict(name=f'lemma:{nm}', function='(lemma over contracts)', kind='lemma', serves=list(L['serves']), instances=1,
                   model='', reason='')
        res = {}
        full = 300000 if tier == 'quick' else 900000

        def attempt(finite, budget):
            ctx = Ctx(finite, scope=dict(R.scope), enums=dict(R.enums))
            ctx.infinite_sorts = set(getattr(R, 'infinite_sorts', ()))
            e = Exec(R, ctx, None, prop=None, timeout_ms=budget)
            e.reveal_all = True          # lemmas are about the spec functions themselves: their definitions are unfolded
            install_axioms(e)
            st = State()
            binds = {}
            for v, ts in L['vars'].items():
                t = parse_type(ts)
                if t.k == 'obj':
                    binds[v] = SV(t, v)
                    e.populate_object(st, v, t.name, 0)
                else:
                    binds[v] = e.fresh_sv(t, v)
            st.old = dict(st.heap)
            for h in L['hyps']:
                st.assume(e.eval_clause(st, h, binds))
            t0 = time.time()
            vac = not e.feasible(st)
            status, model = e.check_valid(st, e.eval_clause(st, L['goal'], binds))
            return (status, model, time.time() - t0, vac)

        # 1. finite scope, short budget: a counter-model, if there is one, is usually found in well under a second
        res[True] = attempt(True, 20000)
        if res[True][0] == 'refuted' or res[True][3]:
            res[False] = ('skipped', '', 0.0, False)
        else:
            # 2. the unbounded proof decides the lemma
            res[False] = attempt(False, full)
            if res[False][0] != 'discharged' and res[True][0] != 'discharged':
                # 3. undecided so far: give the finite-scope refuter the full budget
                again = attempt(True, full)
                res[True] = (again[0], again[1], res[True][2] + again[2], again[3])
        f, u = res[True], res[False]
        if f[3]:
            rec.update(status='refuted', model='hypotheses of the lemma are unsatisfiable (vacuous lemma)')
        elif f[0] == 'refuted':
            rec.update(status='refuted', model=f[1])
        elif u[0] == 'discharged':
            # a lemma is a validity claim over the spec functions: the unbounded proof decides it; the finite pass only refutes
            rec.update(status='discharged')
        else:
            rec.update(status='open', reason=u[1] or f[1])
        rec.update(finite=f[0], unbounded=u[0], backend=f'z3-{z3.get_version_string()}/finite+unbounded', time_s=round(f[2] + u[2], 4))
        out[rec['name']] = rec
        if logp:
            open(logp, 'a').write(f'{time.time():.0f} end   {nm} {rec["status"]} finite={rec["finite"]} unbounded={rec["unbounded"]} {rec["time_s"]}s\n')
    return out
