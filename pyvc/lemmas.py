"""Property-level lemmas over the contracts alone (no code): validity checks that also measure whether the
contracts are strong enough to carry the property."""
from __future__ import annotations

import time

import z3

from .ctx import Ctx
from .engine import State
from .exec import Exec
from .run import install_axioms, registry
from .ty import SV, parse_type


def prove_lemmas(names, prop, tier):
    """Each lemma is decided in its own process (they are independent)."""
    if not names:
        return {}
    import multiprocessing as mp
    with mp.get_context('fork').Pool(min(6, len(names))) as pool:
        parts = pool.map(_prove_some, [([nm], prop, tier) for nm in names], chunksize=1)
    out = {}
    for p in parts:
        out.update(p)
    return out


def _prove_some(args):
    names, prop, tier = args
    out = {}
    R = registry()
    for nm in names:
        L = R.lemmas[nm]
        rec = dict(name=f'lemma:{nm}', function='(lemma over contracts)', kind='lemma', serves=list(L['serves']), instances=1,
                   model='', reason='')
        res = {}
        for finite in (True, False):
            if not finite and res.get(True, ('',))[0] == 'refuted':
                res[False] = ('skipped', '', 0.0, False)
                continue
            ctx = Ctx(finite, scope=dict(R.scope), enums=dict(R.enums))
            ctx.infinite_sorts = set(getattr(R, 'infinite_sorts', ()))
            e = Exec(R, ctx, None, prop=None, timeout_ms=300000 if tier == 'quick' else 900000)
            e.reveal_all = True          # lemmas are about the spec functions themselves: their definitions are unfolded
            install_axioms(e)
            st = State()
            binds = {}
            for v, ts in L['vars'].items():
                t = parse_type(ts)
                if t.k == 'obj':
                    binds[v] = SV(t, v)
                    e.populate_object(st, v, t.name, 0)
                else:
                    binds[v] = e.fresh_sv(t, v)
            st.old = dict(st.heap)
            for h in L['hyps']:
                st.assume(e.eval_clause(st, h, binds))
            t0 = time.time()
            vac = not e.feasible(st)
            status, model = e.check_valid(st, e.eval_clause(st, L['goal'], binds))
            res[finite] = (status, model, time.time() - t0, vac)
        f, u = res[True], res[False]
        if f[3]:
            rec.update(status='refuted', model='hypotheses of the lemma are unsatisfiable (vacuous lemma)')
        elif f[0] == 'refuted':
            rec.update(status='refuted', model=f[1])
        elif u[0] == 'discharged':
            # a lemma is a validity claim over the spec functions: the unbounded proof decides it; the finite pass only refutes
            rec.update(status='discharged')
        else:
            rec.update(status='open', reason=u[1] or f[1])
        rec.update(finite=f[0], unbounded=u[0], backend=f'z3-{z3.get_version_string()}/finite+unbounded', time_s=round(f[2] + u[2], 4))
        out[rec['name']] = rec
    return out
