"""Second back end: hand a z3 query to the cvc5 binary.

z3 prints the solver state as SMT-LIB 2; three adjustments make it readable by cvc5 1.0:
  * sort declarations are moved in front of the datatype declarations that mention them;
  * assertions that use z3-only array combinators (`(_ map f)`, `as-array`, `setminus`, `union`, ...) are DROPPED.
    Dropping an assumption can only turn `unsat` into `sat/unknown`, never the reverse, so an `unsat` from cvc5 over
    the remaining assertions is a valid `unsat` for the original query;
  * `set-info` lines are removed.
Only `unsat` is used; anything else (sat, unknown, timeout, parse error) leaves the obligation undecided.
"""
from __future__ import annotations

import os
import shutil
import subprocess
import tempfile

Z3_ONLY = ('(_ map', 'as-array', '(setminus', '(union ', '(intersection ', '(subset ', '(complement ', '(_ const')
_version = None


def split_top(s: str):
    out, depth, start, i, n = [], 0, None, 0, len(s)
    while i < n:
        c = s[i]
        if c == '"':
            j = i + 1
            while j < n:
                if s[j] == '"':
                    if j + 1 < n and s[j + 1] == '"':
                        j += 2
                        continue
                    break
                j += 1
            i = j
        elif c == '|':
            i = s.index('|', i + 1)
        elif c == ';' and depth == 0:
            while i < n and s[i] != '\n':
                i += 1
        elif c == '(':
            if depth == 0:
                start = i
            depth += 1
        elif c == ')':
            depth -= 1
            if depth == 0:
                out.append(s[start:i + 1])
        i += 1
    return out


def to_cvc5(text: str) -> str:
    cmds = split_top(text)
    sorts = [c for c in cmds if c.startswith('(declare-sort')]
    rest = []
    for c in cmds:
        if c.startswith(('(declare-sort', '(set-logic', '(set-info', '(check-sat', '(get-')):
            continue
        if c.startswith('(assert') and any(x in c for x in Z3_ONLY):
            continue
        rest.append(c)
    return '(set-logic ALL)\n' + '\n'.join(sorts + rest) + '\n(check-sat)\n'


def cvc5_binary():
    return shutil.which('cvc5') or ('/usr/bin/cvc5' if os.path.exists('/usr/bin/cvc5') else None)


def cvc5_version():
    global _version
    if _version is None:
        b = cvc5_binary()
        try:
            out = subprocess.run([b, '--version'], capture_output=True, text=True, timeout=10).stdout
            _version = out.split('version')[1].split()[0] if 'version' in out else 'unknown'
        except Exception:
            _version = 'unavailable'
    return _version


def cvc5_unsat(solver, timeout_ms: int):
    """-> (True, version) iff cvc5 answers `unsat` on the (weakened) query within the budget."""
    b = cvc5_binary()
    if b is None:
        return False, None
    try:
        text = to_cvc5(solver.to_smt2())
    except Exception:
        return False, None
    fd, path = tempfile.mkstemp(suffix='.smt2', prefix='pyvc-')
    try:
        with os.fdopen(fd, 'w') as fh:
            fh.write(text)
        cp = subprocess.run([b, f'--tlimit={int(timeout_ms)}', path], capture_output=True, text=True, timeout=timeout_ms / 1000 + 10)
        first = (cp.stdout.strip().splitlines() or [''])[0].strip()
        return (first == 'unsat'), cvc5_version()
    except Exception:
        return False, None
    finally:
        try:
            os.unlink(path)
        except OSError:
            pass
