"""Second back end: hand a z3 query to the cvc5 binary.

z3 prints the solver state as SMT-LIB 2; three adjustments make it readable by cvc5 1.0:
  * sort declarations are moved in front of the datatype declarations that mention them;
  * assertions that use z3-only array combinators (`(_ map f)`, `as-array`, `setminus`, `union`, ...) are DROPPED.
    Dropping an assumption can only turn `unsat` into `sat/unknown`, never the reverse, so an `unsat` from cvc5 over
    the remaining assertions is a valid `unsat` for the original query;
  * `set-info` lines are removed.
Only `unsat` is used; anything else (sat, unknown, timeout, parse error) leaves the obligation undecided.
"""
from __future__ import annotations

import os
import re
import shutil
import subprocess
import tempfile

Z3_ONLY = ('(_ map', 'as-array', '(setminus', '(union ', '(intersection ', '(subset ', '(complement ', '(lambda ', '(as subset')
_version = None


def split_top(s: str):
    out, depth, start, i, n = [], 0, None, 0, len(s)
    while i < n:
        c = s[i]
        if c == '"':
            j = i + 1
            while j < n:
                if s[j] == '"':
                    if j + 1 < n and s[j + 1] == '"':
                        j += 2
                        continue
                    break
                j += 1
            i = j
        elif c == '|':
            i = s.index('|', i + 1)
        elif c == ';' and depth == 0:
            while i < n and s[i] != '\n':
                i += 1
        elif c == '(':
            if depth == 0:
                start = i
            depth += 1
        elif c == ')':
            depth -= 1
            if depth == 0:
                out.append(s[start:i + 1])
        i += 1
    return out


SETOPS = {'union': ('(or (select a x) (select b x))', 2), 'intersection': ('(and (select a x) (select b x))', 2),
          'setminus': ('(and (select a x) (not (select b x)))', 2), 'complement': ('(not (select a x))', 1)}


def _balanced(text, i):
    """text[i] == '(' -> index just after the matching ')'."""
    depth = 0
    while True:
        c = text[i]
        if c == '(':
            depth += 1
        elif c == ')':
            depth -= 1
            if depth == 0:
                return i + 1
        i += 1


def translate_setops(text: str):
    """z3 prints its set operations on `(Array T Bool)` as `((as union (Array T Bool)) A B)`.  cvc5 has no such
    symbol: each (operation, sort) becomes an uninterpreted function with its defining axiom
    `forall a b x. select(op(a, b), x) = ...` (complete, since arrays are extensional).  -> (text, declarations)"""
    decls, names = [], {}
    for op, (body, arity) in SETOPS.items():
        key = f'((as {op} '
        while key in text:
            i = text.index(key)
            j = i + len(key)
            k = _balanced(text, j)                 # the sort expression (Array T Bool)
            sort = text[j:k]
            close = text.index(')', k)             # closes `(as op SORT`
            if (op, sort) not in names:
                nm = f'z3set_{op}_{len(names)}'
                names[(op, sort)] = nm
                elem_end = _balanced(sort, sort.index(' ') + 1) if sort[sort.index(' ') + 1] == '(' else sort.index(' ', sort.index(' ') + 1)
                elem = sort[sort.index(' ') + 1:elem_end]
                if arity == 2:
                    decls.append(f'(declare-fun {nm} ({sort} {sort}) {sort})')
                    decls.append(f'(assert (forall ((a {sort}) (b {sort}) (x {elem})) (= (select ({nm} a b) x) {body})))')
                else:
                    decls.append(f'(declare-fun {nm} ({sort}) {sort})')
                    decls.append(f'(assert (forall ((a {sort}) (x {elem})) (= (select ({nm} a) x) {body})))')
            text = text[:i] + '(' + names[(op, sort)] + text[close + 1:]
    return text, decls


def rename_reserved(text: str) -> str:
    """Symbols starting with `@` are reserved in SMT-LIB (z3 prints PyVC's heap names `@sys.stdout...` bare)."""
    parts = text.split('"')
    for n in range(0, len(parts), 2):
        parts[n] = re.sub(r'(?<=[\s(])@', 'at!', parts[n])
    return '"'.join(parts)


def to_cvc5(text: str) -> str:
    text = rename_reserved(text)
    text, setdecls = translate_setops(text)
    cmds = split_top(text)
    sorts = [c for c in cmds if c.startswith('(declare-sort')]
    rest = []
    for c in cmds:
        if c.startswith(('(declare-sort', '(set-logic', '(set-info', '(check-sat', '(get-')):
            continue
        if c.startswith('(assert') and any(x in c for x in Z3_ONLY):
            continue
        rest.append(c)
    first_assert = next((n for n, c in enumerate(rest) if c.startswith('(assert')), len(rest))
    rest = rest[:first_assert] + setdecls + rest[first_assert:]
    return '(set-logic ALL)\n' + '\n'.join(sorts + rest) + '\n(check-sat)\n'


def cvc5_binary():
    return shutil.which('cvc5') or ('/usr/bin/cvc5' if os.path.exists('/usr/bin/cvc5') else None)


def cvc5_version():
    global _version
    if _version is None:
        b = cvc5_binary()
        try:
            out = subprocess.run([b, '--version'], capture_output=True, text=True, timeout=10).stdout
            _version = out.split('version')[1].split()[0] if 'version' in out else 'unknown'
        except Exception:
            _version = 'unavailable'
    return _version


def cvc5_unsat(solver, timeout_ms: int):
    """-> (True, version) iff cvc5 answers `unsat` on the (weakened) query within the budget."""
    ans, ver = cvc5_answer(solver, timeout_ms)
    return ans == 'unsat', ver


def cvc5_answer(solver, timeout_ms: int):
    """-> (first output line of cvc5: 'unsat' | 'sat' | 'unknown' | '' (timeout / error), version)."""
    b = cvc5_binary()
    if b is None:
        return '', None
    try:
        text = to_cvc5(solver.to_smt2())
    except Exception:
        return '', None
    fd, path = tempfile.mkstemp(suffix='.smt2', prefix='pyvc-')
    try:
        with os.fdopen(fd, 'w') as fh:
            fh.write(text)
        cp = subprocess.run([b, f'--tlimit={int(timeout_ms)}', path], capture_output=True, text=True, timeout=timeout_ms / 1000 + 10)
        first = (cp.stdout.strip().splitlines() or [''])[0].strip()
        if first not in ('unsat', 'sat', 'unknown') and os.environ.get('PYVC_CVC5_DEBUG'):
            with open(os.environ['PYVC_CVC5_DEBUG'], 'a') as fh:
                fh.write((cp.stdout + cp.stderr)[:400] + '\n---\n')
        return (first if first in ('unsat', 'sat', 'unknown') else ''), cvc5_version()
    except Exception:
        return '', None
    finally:
        try:
            os.unlink(path)
        except OSError:
            pass
