"""Driver: finite-scope pass (Houdini + refutation) then unbounded pass, merged per obligation."""
from __future__ import annotations

import glob
import z3
import os
import time
import traceback

from .contract import load_registry
from .ctx import Ctx
from .engine import SpecError, Unsupported
from .exec import Exec
from .source import SourceIndex

HERE = os.path.dirname(os.path.dirname(os.path.abspath(__file__)))


def registry():
    return load_registry(sorted(glob.glob(os.path.join(HERE, 'contracts', 'c*.py'))))


def add_list_type():
    pass


def verify_functions(keys, *, prop=None, repo='/repo', scope=None, timeout_ms=10000, default_scope=3, R=None, interrupts=None, cross_check=False):
    """-> dict(functions=[...], obligations={name: record}, unsupported={fkey: reason}, stats)"""
    R = R or registry()
    index = SourceIndex(repo)
    out = dict(functions=[], obligations={}, unsupported={}, houdini={}, covers={}, trusted_uses={}, solver_time=0.0, queries=0)
    for fkey in keys:
        t0 = time.time()
        rec = dict(function=fkey)
        try:
            # ---- pass 1: finite scope
            ctx_f = Ctx(True, scope=dict(R.scope, **(scope or {})), enums=dict(R.enums), default_scope=default_scope)
            ctx_f.infinite_sorts = set(getattr(R, 'infinite_sorts', ()))
            e1 = Exec(R, ctx_f, index, prop=prop, timeout_ms=timeout_ms)
            e1.interrupt_budget = dict(interrupts or {})
            install_axioms(e1)
            info = e1.verify_function(fkey)
            rec.update(info)
            # ---- pass 2: unbounded, invariants fixed to the finite-scope survivors
            ctx_u = Ctx(False, enums=dict(R.enums))
            e2 = Exec(R, ctx_u, index, prop=prop, timeout_ms=timeout_ms, houdini=dict(e1.houdini))
            e2.interrupt_budget = dict(interrupts or {})
            e2.cross_check = cross_check
            install_axioms(e2, out.setdefault('lemmas', {}))
            e2.skip_names = {n for n, ob in e1.obligations.items() if ob.status == 'refuted'}
            e2.verify_function(fkey)
            for name, ob in e1.obligations.items():
                u = e2.obligations.get(name)
                st = 'refuted' if ob.status == 'refuted' else ('discharged' if (u is not None and u.status == 'discharged' and ob.status == 'discharged') else 'open')
                out['obligations'][name] = dict(name=name, function=fkey, kind=ob.kind, serves=list(ob.serves), status=st,
                                                finite=ob.status, unbounded=(u.status if u else 'missing'),
                                                backend=(u.solver if u else ob.solver), time_s=round(ob.time_s + (u.time_s if u else 0), 4),
                                                instances=ob.instances, model=ob.model if ob.status == 'refuted' else '', via_loop=('[via-loop]' in (ob.detail or '')),
                                                reason=(u.model if (u and u.status != 'discharged') else ''))
            for name, u in e2.obligations.items():
                if name not in e1.obligations:
                    out['obligations'][name] = dict(name=name, function=fkey, kind=u.kind, serves=list(u.serves), status='open',
                                                    finite='missing', unbounded=u.status, backend=u.solver, time_s=round(u.time_s, 4),
                                                    instances=u.instances, model='', reason='obligation only reached in unbounded pass')
            out['houdini'].update(e1.houdini)
            out['covers'][fkey] = all(ok for k, ok in e1.covers if k == fkey)
            rec['cover'] = out['covers'][fkey]
            # must-fail canary: `False` at the function's exits must NOT be provable on at least one exit
            rec['canary'] = 'discharged' if (e1.canary and all(x == 'discharged' for x in e1.canary)) or not e1.canary else 'refuted'
            rec['exits'] = len(e1.canary)
            if e1.ki_points_seen:
                rec['interrupt_points'] = sorted(map(str, e1.ki_points_seen))
                rec['handler_entry_invariants'] = e1.handler_entry_invs.get(fkey, [])
            for k, v in e1.trusted_uses.items():
                out['trusted_uses'][k] = out['trusted_uses'].get(k, 0) + v
            for k_, v_ in e2.cross.items():
                out.setdefault('cross_check', {}).setdefault(k_, 0)
                out['cross_check'][k_] += v_
            out['solver_time'] += e1.solver_time + e2.solver_time
            out['queries'] += e1.queries + e2.queries
        except Unsupported as ex:
            out['unsupported'][fkey] = str(ex)
            rec['unsupported'] = str(ex)
        except SpecError as ex:
            # a clause names a parameter / local / keyword argument that the current code no longer has (renamed or restructured
            # code): the contract cannot be evaluated against this body, so the function is undecided here -- never a verdict
            why = f'the contract no longer matches the code ({str(ex)[:200]})'
            out['unsupported'][fkey] = why
            rec['unsupported'] = why
        except (TypeError, NotImplementedError, AttributeError, KeyError, IndexError, z3.Z3Exception) as ex:
            # a construct the translation does not handle: the function is OUTSIDE THE FRAGMENT (never a verdict); the
            # traceback tail is kept so that a genuine engine bug is visible in the evidence
            import traceback as _tb
            why = f'engine limitation ({type(ex).__name__}: {str(ex)[:160]}) at ' + ' <- '.join(f'{fr.name}:{fr.lineno}' for fr in _tb.extract_tb(ex.__traceback__)[-3:])
            out['unsupported'][fkey] = why
            rec['unsupported'] = why
        rec['wall_s'] = round(time.time() - t0, 3)
        out['functions'].append(rec)
    return out


def install_axioms(e: Exec, lemma_results=None):
    """Closed spec axioms (trusted, listed in evidence) become part of every query.  Defined functions get their
    definitional axiom (unbounded mode) and their lemmas, each of which is first proved from the definition alone."""
    import z3
    from .engine import State, Evaluator
    from .ty import parse_type, SV
    import ast as _ast
    st = State()
    if e.R.datatypes or e.R.datatypes_late:
        e.ctx.declare_datatypes(list(e.R.datatypes) + list(e.R.datatypes_late))
    for cl in e.R.axioms:
        e.ctx.axioms.append(e.eval_clause(st, cl, {}))
    if e.ctx.finite:
        # the axioms must be satisfiable inside the finite scope, otherwise every finite-scope answer is vacuous
        # (a cardinality question: recursive spec functions are kept opaque for this check even when a lemma unfolds them)
        s = z3.Solver()
        s.set('timeout', 20000)
        guard = e.ctx.axioms
        if getattr(e, 'reveal_all', False):
            e.reveal_all = False
            try:
                guard = [e.eval_clause(st, cl, {}) for cl in e.R.axioms]
            finally:
                e.reveal_all = True
        for a in guard:
            s.add(a)
        if s.check() == z3.unsat:
            raise RuntimeError('spec axioms are unsatisfiable in the finite scope (enlarge R.scope)')
        return
    for nm, d in e.R.deffuncs.items():
        pts = [parse_type(t) for t in d['params'].values()]
        rt = parse_type(d['res'])
        names = list(d['params'])

        def defn(*ks):
            args = [SV(t, k) for t, k in zip(pts, ks)]
            app = e.apply_func(nm, args, rt, pts)
            e.inline_deffuncs = True
            try:
                body = e.eval_spec_in(st, d['body'], dict(zip(names, args)))
            finally:
                e.inline_deffuncs = False
            if rt.k in ('set', 'list'):
                return e.ctx.forall([rt.args[0]], lambda x: z3.Select(app.z, x) == z3.Select(body.z, x))
            return e.ctx.eq(rt, app.z, body.z)
        definition = e.ctx.forall(pts, defn)
        for lm in d['lemmas']:
            f = e.eval_clause(st, lm, {})
            s = z3.Solver()
            s.set('timeout', 20000)
            for a in e.ctx.axioms:
                s.add(a)
            s.add(definition)
            s.add(z3.Not(f))
            r = s.check()
            if lemma_results is not None:
                lemma_results[f'lemma:{nm}/{lm.label()}'] = str(r)
            if r == z3.unsat:
                e.ctx.axioms.append(f)
        e.ctx.axioms.append(definition)
