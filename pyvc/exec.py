"""Statement-level symbolic execution, contract application, loops/Houdini, function verification."""
from __future__ import annotations

import ast
import os
import sys
import copy

import z3

from .contract import Clause, Contract
from .engine import parse_spec
from .engine import (CallEval, Engine, Evaluator, Obligation, Outcome, SpecError, State, Unsupported)
from .source import Extractor, sha
from .ty import BOOL, DSET, INT, MAP, NONE, OBJ, OPT, SET, STR, SV, T, TUP, U, parse_type

MUTATORS = {'add', 'remove', 'discard', 'append', 'clear', 'popleft', 'pop', 'update', 'setdefault', 'extend'}


class Exec(Engine):

    # ------------------------------------------------------------------ lookups
    def tuple_fields(self, t: T):
        nt = getattr(self.R, 'named_tuples', {})
        return nt.get(str(t))

    def class_of(self, obj: SV):
        if obj.t.k == 'obj':
            d = self.R.find_class_by_name(obj.t.name)
            if d is None:
                raise Unsupported(f'class {obj.t.name} not declared')
            return d
        if obj.t.k == 'u' and obj.t.name in self.R.class_of_sort:
            return self.R.classes.get(self.R.class_of_sort[obj.t.name]) or _EmptyDecl(self.R.class_of_sort[obj.t.name])
        raise Unsupported(f'no class for {obj.t}')

    def method_contract_for(self, recv: SV, meth: str):
        owner = recv.t.name if recv.t.k in ('obj', 'u') else None
        if owner is not None and (owner, meth) in self.R.aliases:
            return self.R.contracts.get(self.R.aliases[(owner, meth)])
        if recv.t.k == 'obj':
            d = self.R.find_class_by_name(recv.t.name)
            if d is None:
                return None
            return self.R.method_contract(d.key, meth)
        if recv.t.k == 'u' and recv.t.name in self.R.class_of_sort:
            return self.R.method_contract(self.R.class_of_sort[recv.t.name], meth)
        return None

    def inlinable_def(self, st: State, f):
        """A call to a function WITHOUT a contract whose definition is available in the verified module (module-level
        function, or a method of the receiver's class) is inlined: the callee's real body is executed in place of the
        call (extract-method refactors stay inside the fragment).  -> (FunctionDef, self SV or None) or None."""
        if self.index is None or getattr(self, 'inline_depth', 0) >= 3:
            return None
        try:
            if isinstance(f, ast.Name) and not st.has(f.id):
                if self.resolve_function(f.id) is not None or hasattr(CallEval, 'fn_' + f.id) or f.id in self.R.funcs or f.id in self.R.macros:
                    return None
                node, _, _, _ = self.index.find(f'{self.cur_module}:{f.id}')
                if isinstance(node, ast.FunctionDef) and node is not getattr(self, 'cur_fn_node', None):
                    return node, None
            if isinstance(f, ast.Attribute) and isinstance(f.value, ast.Name) and f.value.id == 'self' and st.has('self') \
                    and st.get('self').t.k == 'obj' and f.attr not in MUTATORS:
                recv = st.get('self')
                if self.method_contract_for(recv, f.attr) is not None:
                    return None
                d = self.R.find_class_by_name(recv.t.name)
                if d is None:
                    return None
                node, _, _, _ = self.index.find(f'{d.key}.{f.attr}')
                if isinstance(node, ast.FunctionDef) and node is not getattr(self, 'cur_fn_node', None) \
                        and not any(isinstance(x, (ast.Yield, ast.YieldFrom)) for x in ast.walk(node)):
                    return node, recv
        except (KeyError, IndexError):
            return None
        return None

    def inline_function(self, fn: ast.FunctionDef, recv, n: ast.Call, st: State):
        ev = Evaluator(self, st)
        params = [a.arg for a in fn.args.posonlyargs + fn.args.args]
        if recv is not None:
            params = params[1:]
        kwonly = [a.arg for a in fn.args.kwonlyargs]
        if fn.args.vararg or fn.args.kwarg or any(isinstance(a, ast.Starred) for a in n.args) or any(k.arg is None for k in n.keywords):
            raise Unsupported(f'inlining {fn.name}: star arguments')
        if len(n.args) > len(params):
            raise Unsupported(f'inlining {fn.name}: too many positional arguments')
        binds = {}
        for nm, a in zip(params, n.args):
            binds[nm] = ev.ev(a)
        for k in n.keywords:
            if k.arg not in params + kwonly or k.arg in binds:
                raise Unsupported(f'inlining {fn.name}: unexpected keyword {k.arg}')
            binds[k.arg] = ev.ev(k.value)
        defaults = dict(zip(params[len(params) - len(fn.args.defaults):], fn.args.defaults))
        defaults.update({a: d for a, d in zip(kwonly, fn.args.kw_defaults) if d is not None})
        for nm in params + kwonly:
            if nm not in binds:
                if nm not in defaults:
                    raise Unsupported(f'inlining {fn.name}: missing argument {nm}')
                binds[nm] = ev.ev(defaults[nm])
        outs0 = self.settle(st, ev, n.lineno)
        if recv is not None:
            binds['self'] = recv
        locals_ = {x.id for x in ast.walk(fn) if isinstance(x, ast.Name) and isinstance(x.ctx, ast.Store)} | set(binds)
        # the callee must not see the caller's locals: every name it reads is its own, or is not a local of the caller
        for x in ast.walk(fn):
            if isinstance(x, ast.Name) and isinstance(x.ctx, ast.Load) and x.id not in locals_ and any(x.id in fr for fr in st.frames):
                raise Unsupported(f'inlining {fn.name}: it reads the global `{x.id}`, which a local of the caller shadows')
        ex = Extractor(display=self.cur.display if self.cur else ())
        body = ex.clean(fn).body
        st.frames.append(dict(binds))
        st.frame_locals.append(locals_)
        self.inline_depth = getattr(self, 'inline_depth', 0) + 1
        self.trusted_uses[f'inlined (no contract): {fn.name}'] = self.trusted_uses.get(f'inlined (no contract): {fn.name}', 0) + 1
        outs = []
        try:
            for o in self.exec_block(body, st):
                o.st.frames.pop()
                o.st.frame_locals.pop()
                if o.kind in ('next', 'return'):
                    outs.append(Outcome('next', o.st, o.val if o.kind == 'return' else SV(NONE, None)))
                elif o.kind == 'raise':
                    outs.append(o)
                else:
                    raise Unsupported('break/continue escaping an inlined function')
        finally:
            self.inline_depth -= 1
        return outs0 + outs

    def resolve_function(self, dotted: str):
        """Free function / dotted external name -> contract (same module first, then any module, then trusted)."""
        for key in (f'{self.cur_module}:{dotted}', f'trusted:{dotted}'):
            if key in self.R.contracts:
                return self.R.contracts[key]
        for key, c in self.R.contracts.items():
            if key.split(':')[1] == dotted:
                return c
        return None

    def count_use(self, c: Contract):
        if c.trusted:
            self.trusted_uses[c.key] = self.trusted_uses.get(c.key, 0) + 1

    def bind_args(self, ev: Evaluator, c: Contract, n: ast.Call, recv):
        names = list(c.params)
        binds = {}
        if recv is not None:
            binds['self'] = recv
        pos = list(n.args)
        if c.varargs:
            pos = [a for a in pos if not isinstance(a, ast.Starred)][:len(names)]
            n = ast.Call(func=n.func, args=pos, keywords=[k for k in n.keywords if k.arg is not None])
        if any(isinstance(a, ast.Starred) for a in pos) or any(k.arg is None for k in n.keywords):
            raise Unsupported('star-args at a contract call')
        for nm, a in zip(names, pos):
            binds[nm] = ('node', a)
        if len(pos) > len(names) and not c.varargs:
            raise Unsupported(f'too many positional args for {c.key}')
        for k in n.keywords:
            if k.arg not in c.params:
                if c.varargs:
                    if c.ignored_kwargs is not None and k.arg not in c.ignored_kwargs:
                        raise Unsupported(f'keyword `{k.arg}` of {c.key} is not covered by its assumed contract')
                    continue
                raise Unsupported(f'unknown keyword {k.arg} for {c.key}')
            binds[k.arg] = ('node', k.value)
        out = {}
        for nm in (['self'] if recv is not None else []) + names:
            if nm == 'self':
                out['self'] = recv
                continue
            pt = parse_type(c.params[nm])
            if nm in binds:
                v = ev.ev(binds[nm][1], pt)
                v = self.fix_empty_to(ev, v, pt)
                if v.t.k == 'opt' and pt.k != 'opt' and v.t.args[0] == pt:
                    # passing an Optional where a value is required: None would be a TypeError inside the callee
                    ev.may_raise.append((z3.Not(v.z['none']), 'TypeError', f'None passed as `{nm}` to {c.key}'))
                    v = SV(pt, v.z['v'])
                out[nm] = self.coerce(v, pt)
            elif nm in c.defaults:
                v = ev.ev(ast.parse(repr(c.defaults[nm]), mode='eval').body, pt)
                out[nm] = self.coerce(self.fix_empty_to(ev, v, pt), pt)
            else:
                raise Unsupported(f'missing argument {nm} for {c.key}')
        return out

    def fix_empty_to(self, ev, v: SV, t: T):
        if v.t.k == 'emptycoll':
            if t.k in ('set', 'list'):
                return SV(t, self.ctx.empty_set(t.args[0]))
            if t.k == 'map':
                return ev.empty_map(*t.args)
        if v.t.k in ('set', 'list') and t.k in ('set', 'list') and v.t.args == t.args:
            return SV(t, v.z)
        return v

    # ------------------------------------------------------------------ ANF
    def callable_value(self, st: State, f):
        """`obj.attr(...)` where attr is a FIELD holding a callable value (e.g. self.logger_func): the value, if its sort
        declares a __call__ contract."""
        if not isinstance(f, ast.Attribute):
            return None
        try:
            recv = Evaluator(self, st.fork()).ev(f.value)
            if recv.t.k != 'obj' or f'{recv.z}.{f.attr}' not in st.heap:
                return None
            v = st.heap[f'{recv.z}.{f.attr}']
        except (Unsupported, KeyError):
            return None
        if v.t.k == 'u' and (v.t.name, '__call__') in self.R.aliases:
            return v
        return None

    def is_effectful_call(self, st: State, n: ast.Call) -> bool:
        f = n.func
        if isinstance(f, ast.Name) and f.id == 'Thread':
            return True
        if self.callable_value(st, f) is not None:
            return True
        if isinstance(f, ast.Attribute) and ast.unparse(f) == 'object.__setattr__':
            return True
        if isinstance(f, ast.Name) and st.has(f.id) and st.get(f.id).t.k == 'u' and (st.get(f.id).t.name, '__call__') in self.R.aliases:
            return True
        if isinstance(f, ast.Attribute) and isinstance(f.value, ast.Name) and st.has(f.value.id) and st.get(f.value.id).t.k == 'thread':
            return True
        if self.inlinable_def(st, f) is not None:
            return True
        if isinstance(f, ast.Name):
            if st.has(f.id) and st.get(f.id).t.k == 'closure':
                return True
            if f.id in self.R.records_ctor if hasattr(self.R, 'records_ctor') else False:
                return True
            if hasattr(CallEval, 'fn_' + f.id) or f.id in self.R.macros or f.id in self.R.funcs:
                return False
            c = self.resolve_function(f.id)
            if c is None:
                d = self.R.find_class_by_name(f.id)
                if d is not None and f'{d.key}.__init__' in self.R.contracts:
                    return True
            return c is not None and not c.pure
        if isinstance(f, ast.Attribute):
            if f.attr in MUTATORS:
                return True
            dotted = ast.unparse(f)
            root = f
            while isinstance(root, (ast.Attribute, ast.Subscript, ast.Call)):
                root = root.func if isinstance(root, ast.Call) else root.value
            if isinstance(root, ast.Name) and not st.has(root.id) and root.id not in self.R.global_objects:
                c = self.resolve_function(dotted)
                return c is not None and not c.pure
            try:
                recv = Evaluator(self, st.fork(), spec=False).ev(f.value)
            except (Unsupported, KeyError):
                return False
            c = self.method_contract_for(recv, f.attr)
            return c is not None and not c.pure
        return False

    def anf(self, st: State, stmt):
        """Hoist effectful calls nested in strict positions into temporaries. Returns [stmts]."""
        pre = []
        eng = self
        # `x = A if c else B` with an effectful call in A or B: the same as `if c: x = A` / `else: x = B`
        if isinstance(stmt, (ast.Assign, ast.AnnAssign, ast.Return)) and isinstance(getattr(stmt, 'value', None), ast.IfExp):
            ife = stmt.value
            if any(isinstance(c, ast.Call) and self.is_effectful_call(st, c) for part in (ife.body, ife.orelse) for c in ast.walk(part)):
                def with_value(v):
                    s2 = copy.copy(stmt)
                    s2.value = v
                    return ast.copy_location(s2, stmt)
                new_if = ast.If(test=ife.test, body=[with_value(ife.body)], orelse=[with_value(ife.orelse)])
                ast.copy_location(new_if, stmt)
                ast.fix_missing_locations(new_if)
                return [new_if]

        class Hoist(ast.NodeTransformer):
            def __init__(self):
                self.depth = 0

            def visit_Call(self, n):
                self.depth += 1
                self.generic_visit(n)
                self.depth -= 1
                if self.depth > 0 and eng.is_effectful_call(st, n):
                    tmp = f'__t{len(pre)}_{n.lineno}'
                    a = ast.Assign(targets=[ast.Name(id=tmp, ctx=ast.Store())], value=n)
                    ast.copy_location(a, n)
                    ast.fix_missing_locations(a)
                    pre.append(a)
                    return ast.copy_location(ast.Name(id=tmp, ctx=ast.Load()), n)
                return n

            def visit_BoolOp(self, n):
                n.values = [self.visit(n.values[0])] + [self._guard(v) for v in n.values[1:]]
                return n

            def visit_IfExp(self, n):
                n.test = self.visit(n.test)
                n.body = self._guard(n.body)
                n.orelse = self._guard(n.orelse)
                return n

            def _guard(self, v):
                for c in ast.walk(v):
                    if isinstance(c, ast.Call) and eng.is_effectful_call(st, c):
                        raise Unsupported('effectful call under short-circuit/conditional expression')
                return v

            def visit_ListComp(self, n):
                # the first generator's iterable is evaluated once, before anything else: it may be hoisted
                g0 = n.generators[0]
                self.depth += 1
                g0.iter = self.visit(g0.iter)
                self.depth -= 1
                saved = g0.iter
                g0.iter = ast.Constant(value=None)
                try:
                    self._guard(n)
                finally:
                    g0.iter = saved
                return n
            visit_SetComp = visit_DictComp = visit_GeneratorExp = visit_ListComp

            def visit_Lambda(self, n):
                return self._guard(n)

        h = Hoist()
        if isinstance(stmt, ast.Expr):
            if isinstance(stmt.value, ast.Call):
                h.depth = -0
                stmt.value.args = [self._hoist_expr(h, a) for a in stmt.value.args]
                for k in stmt.value.keywords:
                    k.value = self._hoist_expr(h, k.value)
                if isinstance(stmt.value.func, ast.Attribute):
                    stmt.value.func.value = self._hoist_expr(h, stmt.value.func.value)
            else:
                stmt.value = self._hoist_expr(h, stmt.value)
        elif isinstance(stmt, (ast.Assign, ast.AugAssign, ast.Return, ast.AnnAssign)):
            if stmt.value is not None:
                if isinstance(stmt.value, ast.Call):
                    stmt.value.args = [self._hoist_expr(h, a) for a in stmt.value.args]
                    for k in stmt.value.keywords:
                        k.value = self._hoist_expr(h, k.value)
                    if isinstance(stmt.value.func, ast.Attribute):
                        stmt.value.func.value = self._hoist_expr(h, stmt.value.func.value)
                else:
                    stmt.value = self._hoist_expr(h, stmt.value)
        elif isinstance(stmt, ast.If):
            stmt.test = self._hoist_expr(h, stmt.test)
        elif isinstance(stmt, ast.Raise):
            pass
        return pre + [stmt]

    def _hoist_expr(self, h, e):
        h.depth = 1
        r = h.visit(e)
        h.depth = 0
        return r

    # ------------------------------------------------------------------ statements
    def exec_block(self, stmts, st: State):
        """-> list[Outcome]"""
        outs = [Outcome('next', st)]
        for s in stmts:
            nxt = []
            for o in outs:
                if o.kind != 'next':
                    nxt.append(o)
                    continue
                if self.interrupts and getattr(o.st, 'ki', 0) < self.interrupts and not isinstance(s, (ast.FunctionDef, ast.Pass)):
                    nxt.append(self.interrupt_edge(o.st, s))
                if self.cur is not None and self.cur.crash_cond and not self.trial and not isinstance(s, (ast.FunctionDef, ast.Pass)):
                    self.crash_check(o.st, 'before `' + ast.unparse(s).split('\n')[0][:50] + '`')
                nxt.extend(self.exec_stmt(s, o.st))
            outs = nxt
            if len(outs) > 400:
                raise Unsupported('path explosion (>400 live paths)')
        return outs

    def crash_check(self, st: State, where: str):
        """C13: the process may be killed here; whatever is on disk now is what a later run finds."""
        b = dict(self.entry_binds)
        probe = st.fork()
        for cl in self.cur.crash_cond:
            if self.active(cl):
                self.vc(probe, self.eval_clause(probe, cl, b), name=f'crash[{where}][{cl.label()}]', kind='ensures', serves=cl.serves)

    def interrupt_edge(self, st: State, s):
        """C14: a KeyboardInterrupt delivered to the calling thread at this statement boundary."""
        k = st.fork()
        k.ki = getattr(st, 'ki', 0) + 1
        k.ki_points = list(getattr(st, 'ki_points', [])) + [getattr(s, 'lineno', 0)]
        self.ki_points_seen.add(getattr(s, 'lineno', 0))
        k.heap['@INTERRUPTED'] = SV(BOOL, z3.BoolVal(True))
        k.heap['@INTERRUPTS'] = SV(INT, z3.IntVal(k.ki))
        exc = self.new_exc(k, 'KeyboardInterrupt')
        k.ki_exc = exc
        return Outcome('raise', k, {'exc': exc, 'interrupt': getattr(s, 'lineno', 0)})

    def exec_stmt(self, s, st: State):
        m = getattr(self, 'st_' + type(s).__name__, None)
        if m is None:
            raise Unsupported(f'statement {type(s).__name__} at line {getattr(s, "lineno", "?")}')
        if isinstance(s, (ast.Expr, ast.Assign, ast.AugAssign, ast.Return, ast.If, ast.AnnAssign)):
            parts = self.anf(st, copy.deepcopy(s))
            if len(parts) > 1:
                return self.exec_block_raw(parts, st)
            if type(parts[0]) is not type(s):
                return self.exec_stmt(parts[0], st)       # desugared into another statement kind
            s = parts[0]
        try:
            return m(s, st)
        except KeyError as ex:
            nm = ex.args[0] if ex.args else None
            if isinstance(nm, str) and nm in getattr(self, 'assigned_locals', ()):
                # a local that is assigned somewhere in the function but not on this path: UnboundLocalError
                return [Outcome('raise', st, {'exc': self.new_exc(st, 'UnboundLocalError'), 'implicit': f'local `{nm}` read before assignment'})]
            if isinstance(nm, str) and self.cur is not None and nm in set(self.cur.display):
                raise Unsupported(f'a statement that is not display-only reads the display name `{nm}` (line {getattr(s, "lineno", "?")})')
            if isinstance(nm, str):
                raise Unsupported(f'unknown name `{nm}` (line {getattr(s, "lineno", "?")})')
            raise

    def exec_block_raw(self, stmts, st):
        outs = [Outcome('next', st)]
        for s in stmts:
            nxt = []
            for o in outs:
                if o.kind != 'next':
                    nxt.append(o)
                    continue
                m = getattr(self, 'st_' + type(s).__name__)
                nxt.extend(m(s, o.st))
            outs = nxt
        return outs

    # implicit raises collected while evaluating an expression
    def settle(self, st: State, ev: Evaluator, line, what=''):
        """Turn implicit-raise conditions into safety obligations or exceptional edges.
        Returns (normal_state_or_None, [Outcome raise...])."""
        raises = []
        for ok, kind, descr in ev.may_raise:
            if z3.is_true(ok):
                continue
            if kind in ('Precondition', 'Unsupported-negative-slice'):
                self.vc(st, ok, name=f'safe[{descr}]', kind='safety', line=line, serves=self.safety_serves())
                continue
            if self.catches(kind):
                bad = st.fork()
                bad.assume(z3.Not(ok))
                if self.feasible(bad):
                    raises.append(Outcome('raise', bad, {'exc': self.new_exc(bad, kind), 'implicit': descr}))
                st.assume(ok)
            else:
                self.vc(st, ok, name=f'safe.{kind}[{descr}]', kind='safety', line=line, serves=self.safety_serves())
        ev.may_raise = []
        return raises

    def safety_serves(self):
        return tuple(self.cur.serves) if self.cur else ()

    def catches(self, kind: str) -> bool:
        for hs in self.handler_stack:
            for h in hs:
                if self.R.is_subkind(kind, h):
                    return True
        if self.cur is not None:
            for rk in self.cur.raises:
                if self.R.is_subkind(kind, rk):
                    return True
        return False

    def st_Pass(self, s, st):
        return [Outcome('next', st)]

    def st_Global(self, s, st):
        return [Outcome('next', st)]

    st_Nonlocal = st_Global

    def st_Assert(self, s, st):
        ev = Evaluator(self, st)
        c = self.truth(ev.ev(s.test))
        outs = self.settle(st, ev, s.lineno)
        self.vc(st, c, name=f'assert[line-stmt:{ast.unparse(s.test)[:50]}]', kind='assert', line=s.lineno,
                serves=self.safety_serves())
        return outs + [Outcome('next', st)]

    def st_Expr(self, s, st):
        v = s.value
        if isinstance(v, ast.Constant):
            return [Outcome('next', st)]
        if isinstance(v, ast.Call):
            return [Outcome(o.kind, o.st, o.val if o.kind != 'next' else None) for o in self.exec_call(v, st, want_value=False)]
        if isinstance(v, (ast.Yield, ast.YieldFrom)):
            return self.exec_yield(v, st, s.lineno)
        ev = Evaluator(self, st)
        ev.ev(v)
        outs = self.settle(st, ev, s.lineno)
        return outs + [Outcome('next', st)]

    def st_AnnAssign(self, s, st):
        if s.value is None:
            return [Outcome('next', st)]
        hint = None
        if isinstance(s.target, ast.Name) and self.cur and s.target.id in self.cur.locals:
            hint = parse_type(self.cur.locals[s.target.id])
        elif isinstance(s.target, ast.Name):
            hint = self.annotation_type(s.annotation)
        return self.assign([s.target], s.value, st, s.lineno, hint)

    ANNOT_COLL = {'OrderedSet': 'set', 'Set': 'set', 'set': 'set', 'list': 'list', 'List': 'list', 'Sequence': 'list',
                  'deque': 'list', 'Iterable': 'list'}
    ANNOT_SCALAR = {'int': INT, 'bool': BOOL, 'str': STR}

    def annotation_type(self, a):
        """Type of a local from its source annotation (`x: OrderedSet[Task] = ...`); None when not understood."""
        try:
            if isinstance(a, ast.Name) and self.cur is not None and a.id in self.cur.annot:
                return parse_type(self.cur.annot[a.id])
            if isinstance(a, ast.Name):
                if a.id in self.ANNOT_SCALAR:
                    return self.ANNOT_SCALAR[a.id]
                m = getattr(self.R, 'annotation_sorts', {})
                if a.id in m:
                    return parse_type(m[a.id])
                return None
            if isinstance(a, ast.Subscript) and isinstance(a.value, ast.Name):
                nm = a.value.id
                if nm in self.ANNOT_COLL:
                    e = self.annotation_type(a.slice)
                    if e is not None and nm == 'OrderedSet' and e == U('Inst'):
                        return T('set', (e,), 'byvalue')      # an OrderedSet of task objects compares them by value
                    return T(self.ANNOT_COLL[nm], (e,)) if e is not None else None
                if nm in ('dict', 'Dict') and isinstance(a.slice, ast.Tuple):
                    k, v = [self.annotation_type(x) for x in a.slice.elts]
                    return MAP(k, v) if k is not None and v is not None else None
        except Exception:
            return None
        return None

    def st_Assign(self, s, st):
        hint = None
        if len(s.targets) == 1 and isinstance(s.targets[0], ast.Name) and self.cur and s.targets[0].id in self.cur.locals:
            hint = parse_type(self.cur.locals[s.targets[0].id])
        return self.assign(s.targets, s.value, st, s.lineno, hint)

    def assign(self, targets, value, st, line, hint=None):
        outs = []
        if isinstance(value, ast.Call) and self.is_effectful_call(st, value):
            res = self.exec_call(value, st, want_value=True)
        elif isinstance(value, ast.Yield):
            raise Unsupported('yield expression value')
        else:
            ev = Evaluator(self, st)
            if hint is None and len(targets) == 1:
                hint = self.lvalue_type(st, targets[0])
            v = ev.ev(value, hint)
            outs += self.settle(st, ev, line)
            v = self.track_alias(st, value, v, targets)
            res = [Outcome('next', st, v)]
        for o in res:
            if o.kind != 'next':
                outs.append(o)
                continue
            v = o.val
            if hint is not None and v is not None:
                ev2 = Evaluator(self, o.st)
                v = self.coerce_hint(ev2, v, hint)
            cur = [o.st]
            for tgt in targets:
                nxt = []
                for s2 in cur:
                    rs = self.assign_to(tgt, v, s2, line)
                    for r in rs:
                        if r.kind == 'next':
                            nxt.append(r.st)
                        else:
                            outs.append(r)
                cur = nxt
            outs += [Outcome('next', s2) for s2 in cur]
        return outs

    COLL = ('set', 'list', 'map', 'dset', 'cnt')

    def track_alias(self, st: State, value, v: SV, targets):
        """`x = self.f[k]` binds x to the *same* collection object: remember the heap lvalue (with the key
        frozen in a hidden local) so later reads and mutations of x go through it."""
        if v.t.k not in self.COLL or not (len(targets) == 1 and isinstance(targets[0], ast.Name)):
            return v
        if isinstance(value, ast.Name):
            src = st.get(value.id) if st.has(value.id) else None
            if src is not None and getattr(src, 'origin', None) is not None:
                v2 = SV(v.t, v.z)
                v2.origin = src.origin
                return v2
            if src is not None:
                src.shared = True
                v2 = SV(v.t, v.z)
                v2.shared = True
                return v2
            return v
        node = value
        if isinstance(node, (ast.Subscript, ast.Attribute)):
            root = node
            while isinstance(root, (ast.Subscript, ast.Attribute)):
                root = root.value
            if not (isinstance(root, ast.Name) and st.has(root.id) and st.get(root.id).t.k == 'obj'):
                return v
            frozen = self.freeze_lvalue(st, node)
            if frozen is None:
                return v
            v2 = SV(v.t, v.z)
            v2.origin = frozen
            return v2
        return v

    def freeze_lvalue(self, st: State, node):
        """Copy of an lvalue expression in which every subscript key is replaced by a hidden local holding its
        current value."""
        if isinstance(node, ast.Name):
            return ast.Name(id=node.id, ctx=ast.Load())
        if isinstance(node, ast.Attribute):
            b = self.freeze_lvalue(st, node.value)
            return None if b is None else ast.copy_location(ast.Attribute(value=b, attr=node.attr, ctx=ast.Load()), node)
        if isinstance(node, ast.Subscript):
            b = self.freeze_lvalue(st, node.value)
            if b is None:
                return None
            try:
                kv = Evaluator(self, st.fork()).ev(node.slice)
            except (Unsupported, KeyError):
                return None
            self._alias_n = getattr(self, '_alias_n', 0) + 1
            hidden = f'__aliaskey{self._alias_n}'
            st.frames[0][hidden] = kv
            return ast.copy_location(ast.Subscript(value=b, slice=ast.Name(id=hidden, ctx=ast.Load()), ctx=ast.Load()), node)
        return None

    def coerce_hint(self, ev, v: SV, hint: T):
        v = self.fix_empty_to(ev, v, hint)
        if v.t == hint:
            return v
        try:
            return self.coerce(v, hint)
        except Unsupported:
            return v

    def lvalue_type(self, st: State, tgt):
        """Declared type of an assignment target, when it already exists (used to type empty literals)."""
        try:
            if isinstance(tgt, ast.Name):
                return st.get(tgt.id).t if st.has(tgt.id) else None
            if isinstance(tgt, ast.Attribute):
                ev = Evaluator(self, st.fork())
                return ev.ev(tgt).t
            if isinstance(tgt, ast.Subscript):
                ev = Evaluator(self, st.fork())
                b = ev.ev(tgt.value)
                if b.t.k == 'map':
                    return b.t.args[1]
                if b.t.k == 'dset':
                    return SET(b.t.args[1])
                if b.t.k == 'cnt':
                    return INT
        except (Unsupported, KeyError):
            return None
        return None

    def assign_to(self, tgt, v: SV, st: State, line):
        """Store v into an lvalue; returns [Outcome] (normal + implicit raises)."""
        if isinstance(tgt, ast.Name):
            if v is None:
                raise Unsupported('assigning the result of a None-returning call')
            prev = st.get(tgt.id) if st.has(tgt.id) else None
            org = getattr(prev, 'origin', None) if prev is not None else None
            if getattr(v, 'via_mutation', False) and prev is not None:
                if getattr(prev, 'shared', False):
                    raise Unsupported(f'mutation of a local collection `{tgt.id}` that is aliased by another local')
                if org is not None:
                    # write through to the heap location this local aliases
                    v2 = SV(v.t, v.z)
                    v2.origin = org
                    st.set(tgt.id, v2)
                    return self.assign_to(org, SV(v.t, v.z), st, line)
            st.set(tgt.id, v)
            return [Outcome('next', st)]
        if isinstance(tgt, (ast.Tuple, ast.List)):
            if v.t.k != 'tuple' or len(v.t.args) != len(tgt.elts):
                raise Unsupported('unpacking assignment shape')
            outs = [Outcome('next', st)]
            for e, a, z in zip(tgt.elts, v.t.args, v.z):
                nxt = []
                for o in outs:
                    if o.kind == 'next':
                        nxt += self.assign_to(e, SV(a, z), o.st, line)
                    else:
                        nxt.append(o)
                outs = nxt
            return outs
        if isinstance(tgt, ast.Attribute):
            ev = Evaluator(self, st)
            base = ev.ev(tgt.value)
            outs = self.settle(st, ev, line)
            if base.t.k == 'obj':
                path = f'{base.z}.{tgt.attr}'
                if path not in st.heap:
                    raise Unsupported(f'assignment to undeclared attribute {path}')
                decl_t = st.heap[path].t
                st.heap[path] = self.coerce(self.fix_empty_to(ev, v, decl_t), decl_t)
                return outs + [Outcome('next', st)]
            rec = self.record_of(base.t)
            if rec is not None and tgt.attr in rec.mutable:
                arr = self.heap_record_field(st, base.t.name, tgt.attr)
                vt = parse_type(rec.mutable[tgt.attr])
                nv = self.coerce(v, vt)
                st.heap[f'{base.t.name}.{tgt.attr}'] = SV(arr.t, self.ctx.store(vt, arr.z, base.z, nv.z))
                return outs + [Outcome('next', st)]
            raise Unsupported(f'attribute assignment on {base.t}')
        if isinstance(tgt, ast.Subscript):
            ev = Evaluator(self, st)
            base = ev.ev(tgt.value)
            key = ev.ev(tgt.slice)
            outs = self.settle(st, ev, line)
            t = base.t
            if t.k == 'map':
                k = self.coerce(key, t.args[0])
                nv = self.coerce(self.fix_empty_to(ev, v, t.args[1]), t.args[1])
                newb = SV(t, {'dom': z3.Store(base.z['dom'], k.z, True),
                              'val': self.ctx.store(t.args[1], base.z['val'], k.z, nv.z)})
            elif t.k == 'dset':
                k = self.coerce(key, t.args[0])
                nv = self.fix_empty_to(ev, v, SET(t.args[1]))
                newb = SV(t, z3.Store(base.z, k.z, nv.z))
            elif t.k == 'cnt':
                k = self.coerce(key, t.args[0])
                newb = SV(t, z3.Store(base.z, k.z, v.z))
            else:
                raise Unsupported(f'subscript assignment on {t}')
            newb.via_mutation = True          # `x[k] = v` mutates the object x is bound to (write through an aliasing local)
            return outs + self.assign_to(tgt.value, newb, st, line)
        raise Unsupported(f'assignment target {type(tgt).__name__}')

    def st_AugAssign(self, s, st):
        # x op= v   ==   x = x op v   (targets here are names, counters, list +=)
        load = copy.deepcopy(s.target)
        for n in ast.walk(load):
            if hasattr(n, 'ctx'):
                n.ctx = ast.Load()
        binop = ast.BinOp(left=load, op=s.op, right=s.value)
        ast.copy_location(binop, s)
        ast.fix_missing_locations(binop)
        return self.assign([s.target], binop, st, s.lineno)

    def st_Delete(self, s, st):
        outs = [Outcome('next', st)]
        for tgt in s.targets:
            nxt = []
            for o in outs:
                if o.kind != 'next':
                    nxt.append(o)
                    continue
                nxt += self.delete(tgt, o.st, s.lineno)
            outs = nxt
        return outs

    def delete(self, tgt, st, line):
        if not isinstance(tgt, ast.Subscript):
            raise Unsupported('del of non-subscript')
        ev = Evaluator(self, st)
        base = ev.ev(tgt.value)
        key = ev.ev(tgt.slice)
        if base.t.k != 'map':
            raise Unsupported(f'del on {base.t}')
        k = self.coerce(key, base.t.args[0])
        ev.may_raise.append((z3.Select(base.z['dom'], k.z), 'KeyError', 'del ' + ast.unparse(tgt)))
        outs = self.settle(st, ev, line)
        newb = SV(base.t, {'dom': z3.Store(base.z['dom'], k.z, False), 'val': base.z['val']})
        return outs + self.assign_to(tgt.value, newb, st, line)

    def st_If(self, s, st):
        if self.cur is not None and self.cur.assume_unreachable and ast.unparse(s.test) in self.cur.assume_unreachable:
            ev = Evaluator(self, st)
            c = self.truth(ev.ev(s.test))
            outs = self.settle(st, ev, s.lineno)
            st.assume(z3.Not(c))
            self.trusted_uses[f'assumed unreachable in {self.cur_fkey}: `if {ast.unparse(s.test)}`'] = 1
            return outs + (self.exec_block(s.orelse, st) if s.orelse else [Outcome('next', st)])
        ev = Evaluator(self, st)
        c = self.truth(ev.ev(s.test))
        outs = self.settle(st, ev, s.lineno)
        a, b = st, st.fork()
        a.assume(c)
        b.assume(z3.Not(c))
        tr = list(getattr(st, 'trail', []))
        a.trail = tr + [f'{s.lineno}T']
        b.trail = tr + [f'{s.lineno}F']
        # flow-sensitive narrowing of an Optional local: in the branch where `X is not None` holds, X is read as its value
        t = s.test
        if (isinstance(t, ast.Compare) and len(t.ops) == 1 and isinstance(t.left, ast.Name) and isinstance(t.ops[0], (ast.Is, ast.IsNot))
                and isinstance(t.comparators[0], ast.Constant) and t.comparators[0].value is None):
            nm = t.left.id
            tgt = b if isinstance(t.ops[0], ast.Is) else a
            if tgt.has(nm) and tgt.get(nm).t.k == 'opt' and getattr(tgt.get(nm), 'origin', None) is None:
                full = tgt.get(nm)
                tgt.set(nm, SV(full.t.args[0], full.z['v']))
        if self.feasible(a):
            outs += self.exec_block(s.body, a)
        if self.feasible(b):
            outs += self.exec_block(s.orelse, b) if s.orelse else [Outcome('next', b)]
        return outs

    def st_Return(self, s, st):
        if s.value is None:
            return [Outcome('return', st, SV(NONE, None))]
        if isinstance(s.value, ast.Call) and self.is_effectful_call(st, s.value):
            outs = []
            for o in self.exec_call(s.value, st, want_value=True):
                outs.append(Outcome('return', o.st, o.val) if o.kind == 'next' else o)
            return outs
        ev = Evaluator(self, st)
        hint = parse_type(self.ret_type) if getattr(self, 'ret_type', None) else None
        v = ev.ev(s.value, hint)
        outs = self.settle(st, ev, s.lineno)
        return outs + [Outcome('return', st, v)]

    def st_Break(self, s, st):
        return [Outcome('break', st)]

    def st_Continue(self, s, st):
        return [Outcome('continue', st)]

    def st_Raise(self, s, st):
        if s.exc is None:
            cur = getattr(st, 'current_exc', None)
            if cur is None:
                raise Unsupported('bare raise outside handler')
            return [Outcome('raise', st, {'exc': cur})]
        e = s.exc
        if isinstance(e, ast.Call) and isinstance(e.func, ast.Name):
            kind = e.func.id
            if kind in self.exc_kinds():
                return [Outcome('raise', st, {'exc': self.new_exc(st, kind), 'cause': bool(s.cause)})]
            if st.has(kind) and st.get(kind).t.k == 'exccls_param':
                pass
        if isinstance(e, ast.Name):
            if e.id in self.exc_kinds():
                return [Outcome('raise', st, {'exc': self.new_exc(st, e.id)})]
            if st.has(e.id) and st.get(e.id).t == U('Exc'):
                x = st.get(e.id)
                if s.cause is not None:
                    cz = Evaluator(self, st).ev(s.cause)
                    if cz.t == U('Exc'):
                        st.assume(self.ctx.func('exc_cause', [U('Exc')], U('Exc'))(x.z) == cz.z)
                        st.assume(self.ctx.func('exc_has_cause', [U('Exc')], BOOL)(x.z))
                return [Outcome('raise', st, {'exc': x})]
        if isinstance(e, ast.Attribute):
            ev = Evaluator(self, st)
            v = ev.ev(e)
            if v.t == U('Exc'):
                return [Outcome('raise', st, {'exc': v})]
            if v.t.k == 'opt' and v.t.args[0] == U('Exc'):
                return [Outcome('raise', st, {'exc': SV(U('Exc'), v.z['v'])})]
        raise Unsupported(f'raise {ast.unparse(e)[:40]}')

    def st_Try(self, s, st):
        kinds = []
        for h in s.handlers:
            kinds.append(self.handler_kinds(h))
        self.handler_stack.append([k for ks in kinds for k in ks])
        try:
            body_outs = self.exec_block(s.body, st)
        finally:
            self.handler_stack.pop()
        outs = []
        if self.interrupts and any('KeyboardInterrupt' in ks for ks in kinds):
            ints = [o for o in body_outs if o.kind == 'raise' and o.val.get('interrupt') is not None]
            if len(ints) > 1:
                body_outs = [o for o in body_outs if o not in ints] + [self.join_interrupts(st, ints)]
        for o in body_outs:
            if o.kind == 'raise':
                outs += self.dispatch_handlers(s, o, kinds)
            elif o.kind == 'next' and s.orelse:
                outs += self.exec_block(s.orelse, o.st)
            else:
                outs.append(o)
        if s.finalbody:
            fin = []
            for o in outs:
                for fo in self.exec_block(s.finalbody, o.st):
                    if fo.kind == 'next':
                        fin.append(Outcome(o.kind, fo.st, o.val))
                    else:
                        fin.append(fo)
            outs = fin
        return outs

    def join_interrupts(self, entry: State, ints):
        """All interrupt edges of one try body reach the same handler: instead of running the handler once per edge,
        run it once from a joined state -- everything some edge's path wrote is havocked, and a candidate from the
        function's pool is assumed iff it is *proved* in every edge's state (handler-entry invariant, Houdini style)."""
        names, paths = set(), set()
        for o in ints:
            for fi, f in enumerate(o.st.frames[:len(entry.frames)]):
                for nm, v in f.items():
                    old = entry.frames[fi].get(nm)
                    if old is None or (old is not v and not self.same_repr(old, v)):
                        names.add(nm)
            for p, v in o.st.heap.items():
                old = entry.heap.get(p, self.lazy_entry.get(p))
                if old is None or (old is not v and not self.same_repr(old, v)):
                    paths.add(p)
        pool = self.candidate_pool()
        hk = f'{self.cur_fkey}#join@' + ''.join(getattr(entry, 'trail', []))
        labmap = {c.label(): c for c in pool}
        if self.houdini_fixed:
            keep = set(self.houdini.get(hk, []))
        else:
            keep = None
            for o in ints:
                forms = self.eval_candidates(o.st, pool, {})
                ok = set()
                for l, f in forms.items():
                    if keep is not None and l not in keep:
                        continue
                    if self.check_valid(o.st, f)[0] == 'discharged':
                        ok.add(l)
                keep = ok if keep is None else (keep & ok)
            self.houdini[hk] = sorted(keep or ())
        if not self.trial:
            for o in ints:
                forms = self.eval_candidates(o.st, pool, {})
                for l in sorted(keep or ()):
                    if l in forms:
                        self.vc(o.st.fork(), forms[l], name=f'handler.entry[{l}]', kind='inv-init', serves=labmap[l].serves,
                                detail=f'at interrupt point line {o.val.get("interrupt")}')
        j = entry.fork()
        # locals first bound inside the try body exist in the joined state with unconstrained values
        for o in ints:
            for fi, f in enumerate(o.st.frames[:len(j.frames)]):
                for nm, v in f.items():
                    if nm not in j.frames[fi] and isinstance(v, SV) and v.t.k not in ('closure', 'lambda', 'thread'):
                        j.frames[fi][nm] = v
            for p, v in o.st.heap.items():
                if p not in j.heap:
                    j.heap[p] = v
        self.havoc_loop(j, names, paths)
        forms = self.eval_candidates(j, pool, {})
        for l in sorted(keep or ()):
            if l in forms:
                j.assume(forms[l])
        j.ki = max(getattr(o.st, 'ki', 0) for o in ints)
        j.ki_points = sorted({str(p) for o in ints for p in getattr(o.st, 'ki_points', [])})
        j.trail = list(getattr(entry, 'trail', [])) + [f'KI{j.ki}']
        j.heap['@INTERRUPTED'] = SV(BOOL, z3.BoolVal(True))
        j.heap['@INTERRUPTS'] = SV(INT, z3.IntVal(j.ki))
        self.handler_entry_invs.setdefault(self.cur_fkey, []).append(dict(edges=len(ints), kept=sorted(keep or ())))
        return Outcome('raise', j, {'exc': self.new_exc(j, 'KeyboardInterrupt'), 'interrupt': -1})

    def handler_kinds(self, h):
        if h.type is None:
            return ['BaseException']
        if isinstance(h.type, ast.Name):
            return [h.type.id]
        if isinstance(h.type, ast.Tuple):
            return [e.id for e in h.type.elts]
        if isinstance(h.type, ast.Attribute):
            return [h.type.attr]
        raise Unsupported('handler type')

    def dispatch_handlers(self, s, o: Outcome, kinds):
        exc = o.val['exc']
        outs = []
        rest = o.st
        for h, ks in zip(s.handlers, kinds):
            for k in ks:
                if k not in self.exc_kinds():
                    raise Unsupported(f'unknown exception kind {k} in handler')
            cond = z3.Or([self.is_kind(exc.z, k) for k in ks])
            hit = rest.fork()
            hit.assume(cond)
            rest.assume(z3.Not(cond))
            if self.feasible(hit):
                if h.name:
                    hit.set(h.name, exc)
                prev = getattr(hit, 'current_exc', None)
                hit.current_exc = exc
                for ho in self.exec_block(h.body, hit):
                    ho.st.current_exc = prev
                    outs.append(ho)
            if not self.feasible(rest):
                return outs
        outs.append(Outcome('raise', rest, o.val))
        return outs

    def st_With(self, s, st):
        """`with` over trusted transparent managers and over file handles (the handle's close is part of the FS model)."""
        states = [st]
        outs = []
        for item in s.items:
            ce = item.context_expr
            name = ast.unparse(ce.func) if isinstance(ce, ast.Call) else ast.unparse(ce)
            if isinstance(ce, ast.Name) and st.has(ce.id) and st.get(ce.id).t.k == 'u' and st.get(ce.id).t.name in self.R.file_sorts:
                continue   # `with handle:` on an already opened file handle
            if name.split('.')[-1] in self.R.transparent_cms or name in self.R.transparent_cms:
                if item.optional_vars is not None:
                    raise Unsupported('with ... as on transparent manager')
                continue
            if isinstance(ce, ast.Call):
                nxt = []
                for cur in states:
                    for o in self.exec_call(ce, cur, want_value=True):
                        if o.kind != 'next':
                            outs.append(o)
                            continue
                        if o.val is None or o.val.t.k != 'u' or o.val.t.name not in self.R.file_sorts:
                            raise Unsupported(f'with {name}: not a file handle')
                        if item.optional_vars is not None:
                            for r in self.assign_to(item.optional_vars, o.val, o.st, s.lineno):
                                (nxt if r.kind == 'next' else outs).append(r.st if r.kind == 'next' else r)
                        else:
                            nxt.append(o.st)
                states = nxt
                continue
            raise Unsupported(f'with {name}')
        handles = []
        for item in s.items:
            ce = item.context_expr
            nm = item.optional_vars.id if isinstance(item.optional_vars, ast.Name) else (ce.id if isinstance(ce, ast.Name) else None)
            if nm:
                handles.append(nm)
        for cur in states:
            for o in self.exec_block(s.body, cur):
                outs += self.with_exit(o, handles, s.lineno)
        return outs

    def with_exit(self, o: Outcome, handles, line):
        """Leaving a `with handle:` block closes the handle (part of the file-system model): one declared contract for a
        normal body exit, another for an exceptional one."""
        res = [o]
        for nm in reversed(handles):
            nxt = []
            for cur in res:
                st = cur.st
                if not st.has(nm):
                    nxt.append(cur)
                    continue
                h = st.get(nm)
                hooks = self.R.with_exit.get(h.t.name if h.t.k == 'u' else '')
                if not hooks:
                    nxt.append(cur)
                    continue
                c = self.R.contracts[hooks[1] if cur.kind == 'raise' else hooks[0]]
                for r in self.apply_contract(c, {'self': h}, st, line):
                    if r.kind == 'next':
                        nxt.append(Outcome(cur.kind, r.st, cur.val))
                    else:
                        nxt.append(r)       # close itself failed: that exception replaces the outcome
            res = nxt
        return res

    def st_FunctionDef(self, s, st):
        st.set(s.name, SV(T('closure'), s))
        return [Outcome('next', st)]

    # ------------------------------------------------------------------ calls (statement level)
    def exec_call(self, n: ast.Call, st: State, want_value: bool):
        """-> [Outcome]; a normal outcome carries the result value in .val"""
        f = n.func
        if isinstance(f, ast.Attribute) and ast.unparse(f) == 'object.__setattr__' and len(n.args) == 3 \
                and isinstance(n.args[1], ast.Constant) and isinstance(n.args[1].value, str):
            # object.__setattr__(obj, 'name', value) on a frozen dataclass: a plain attribute store
            tgt = ast.copy_location(ast.Attribute(value=n.args[0], attr=n.args[1].value, ctx=ast.Store()), n)
            ev0 = Evaluator(self, st)
            v0 = ev0.ev(n.args[2], self.lvalue_type(st, tgt))
            outs0 = self.settle(st, ev0, n.lineno)
            return outs0 + [Outcome(o.kind, o.st, SV(NONE, None) if o.kind == 'next' else o.val) for o in self.assign_to(tgt, v0, st, n.lineno)]
        # threading.Thread(target=<closure>): trusted model -- start() runs the closure to completion in another
        # thread (an exception there ends that thread only), join() waits for it.
        if isinstance(f, ast.Name) and f.id == 'Thread' and len(n.keywords) == 1 and n.keywords[0].arg == 'target' \
                and isinstance(n.keywords[0].value, ast.Name) and st.has(n.keywords[0].value.id) \
                and st.get(n.keywords[0].value.id).t.k == 'closure':
            self.trusted_uses['trusted:threading.Thread(target=closure)'] = self.trusted_uses.get('trusted:threading.Thread(target=closure)', 0) + 1
            return [Outcome('next', st, SV(T('thread'), st.get(n.keywords[0].value.id).z))]
        if isinstance(f, ast.Attribute) and isinstance(f.value, ast.Name) and st.has(f.value.id) and st.get(f.value.id).t.k == 'thread':
            if f.attr == 'join':
                return [Outcome('next', st, SV(NONE, None))]
            if f.attr == 'start':
                fn = st.get(f.value.id).z
                self.handler_stack.append(['BaseException'])
                saved_int = self.interrupts
                self.interrupts = 0          # KeyboardInterrupt is delivered to the MAIN thread only: no interrupt edges inside the helper thread's body
                try:
                    outs = self.inline_closure(fn, ast.Call(func=ast.Name(id=fn.name, ctx=ast.Load()), args=[], keywords=[]), st)
                finally:
                    self.interrupts = saved_int
                    self.handler_stack.pop()
                return [Outcome('next', o.st, SV(NONE, None)) for o in outs]
        # closures: inline
        if isinstance(f, ast.Name) and st.has(f.id) and st.get(f.id).t.k == 'closure':
            return self.inline_closure(st.get(f.id).z, n, st)
        inl = self.inlinable_def(st, f)
        if inl is not None:
            return self.inline_function(inl[0], inl[1], n, st)
        if isinstance(f, ast.Attribute) and f.attr in MUTATORS:
            try:
                ev = Evaluator(self, st.fork())
                recv = ev.ev(f.value)
            except KeyError:
                recv = None
            if recv is not None and recv.t.k in ('set', 'list', 'map', 'dset', 'cnt', 'emptycoll'):
                return self.builtin_mutator(n, f, st)
        if not self.is_effectful_call(st, n):
            ev = Evaluator(self, st)
            v = ev.ev(n)
            outs = self.settle(st, ev, n.lineno)
            return outs + [Outcome('next', st, v)]
        # contract call
        ev = Evaluator(self, st)
        recv = None
        cv = self.callable_value(st, f)
        if cv is not None:
            c = self.R.contracts[self.R.aliases[(cv.t.name, '__call__')]]
            binds = self.bind_args(ev, c, n, cv)
            outs = self.settle(st, ev, n.lineno)
            return outs + self.apply_contract(c, binds, st, n.lineno)
        if isinstance(f, ast.Name) and st.has(f.id) and st.get(f.id).t.k == 'u' and (st.get(f.id).t.name, '__call__') in self.R.aliases:
            recv = st.get(f.id)
            c = self.R.contracts[self.R.aliases[(recv.t.name, '__call__')]]
            binds = self.bind_args(ev, c, n, recv)
            outs = self.settle(st, ev, n.lineno)
            return outs + self.apply_contract(c, binds, st, n.lineno)
        if isinstance(f, ast.Attribute):
            root = f
            while isinstance(root, (ast.Attribute, ast.Subscript, ast.Call)):
                root = root.func if isinstance(root, ast.Call) else root.value
            if isinstance(root, ast.Name) and not st.has(root.id) and root.id not in self.R.global_objects:
                c = self.resolve_function(ast.unparse(f))
            else:
                recv = ev.ev(f.value)
                c = self.method_contract_for(recv, f.attr)
        else:
            c = self.resolve_function(f.id)
            d = self.R.find_class_by_name(f.id)
            if d is not None and f'{d.key}.__init__' in self.R.contracts:
                c = self.R.contracts[f'{d.key}.__init__']
                recv = self.new_object(st, f.id)
                binds = self.bind_args(ev, c, n, recv)
                for fld, par in c.binds_fields.items():
                    st.heap[f'{recv.z}.{fld}'] = binds[par]      # the new object's field aliases the argument object
                outs = self.settle(st, ev, n.lineno)
                res = []
                for o in self.apply_contract(c, binds, st, n.lineno):
                    res.append(Outcome(o.kind, o.st, recv if o.kind == 'next' else o.val))
                return outs + res
        if c is None:
            raise Unsupported(f'unclassified call {ast.unparse(f)}')
        binds = self.bind_args(ev, c, n, recv)
        outs = self.settle(st, ev, n.lineno)
        return outs + self.apply_contract(c, binds, st, n.lineno)

    def inline_closure(self, fn: ast.FunctionDef, n: ast.Call, st: State):
        if n.args or n.keywords or fn.args.args:
            raise Unsupported('closure with arguments')
        locals_ = set()
        for x in ast.walk(fn):
            if isinstance(x, ast.Name) and isinstance(x.ctx, ast.Store):
                locals_.add(x.id)
        st.frames.append({})
        st.frame_locals.append(locals_)
        outs = []
        for o in self.exec_block(fn.body, st):
            o.st.frames.pop()
            o.st.frame_locals.pop()
            if o.kind in ('next', 'return'):
                outs.append(Outcome('next', o.st, o.val if o.kind == 'return' else SV(NONE, None)))
            elif o.kind == 'raise':
                outs.append(o)
            else:
                raise Unsupported('break/continue escaping a closure')
        return outs

    def builtin_mutator(self, n: ast.Call, f: ast.Attribute, st: State):
        ev = Evaluator(self, st)
        recv = ev.ev(f.value)
        t, m = recv.t, f.attr
        res = SV(NONE, None)
        new = None
        ctx = self.ctx
        if t.k == 'emptycoll' and m in ('add', 'append') and recv.t.name in ('set', 'list'):
            # untyped empty literal: its element type is fixed by the first element added
            x0 = Evaluator(self, st.fork()).ev(n.args[0])
            if x0.t.k == 'u' and x0.t.name == 'Inst' and False:
                pass
            t = T(recv.t.name, (x0.t,))
            recv = SV(t, ctx.empty_set(x0.t))
        if t.k in ('set', 'list'):
            et = t.args[0]
            if m in ('add', 'append') and t.name == 'byvalue':
                # OrderedSet.add on task objects: `values[item] = item` keeps the FIRST object stored under an equal key
                x = self.coerce(ev.ev(n.args[0]), et)
                valf = ctx.func('Inst_to_Task', [U('Inst')], U('Task'))
                present = ctx.exists([et], lambda y: z3.And(z3.Select(recv.z, y), valf(y) == valf(x.z)))
                new = SV(t, z3.If(present, recv.z, z3.Store(recv.z, x.z, True)))
            elif m in ('add', 'append'):
                x = self.coerce(ev.ev(n.args[0]), et)
                if t.name in ('deque', 'ulist'):
                    # the duplicate-free abstraction of a deque is only valid if the appended element is new
                    ev.may_raise.append((z3.Not(z3.Select(recv.z, x.z)), 'Precondition', 'append of an element already present (duplicate-free list abstraction)'))
                new = SV(t, z3.Store(recv.z, x.z, True))
            elif m in ('remove',):
                x = self.coerce(ev.ev(n.args[0]), et)
                ev.may_raise.append((z3.Select(recv.z, x.z), 'KeyError' if t.k == 'set' else 'ValueError',
                                     ast.unparse(n)))
                if t.k == 'list':
                    raise Unsupported('list.remove')
                new = SV(t, z3.Store(recv.z, x.z, False))
            elif m == 'discard':
                x = self.coerce(ev.ev(n.args[0]), et)
                new = SV(t, z3.Store(recv.z, x.z, False))
            elif m == 'clear':
                new = SV(t, ctx.empty_set(et))
            elif m in ('update', 'extend'):
                o = ev.ev(n.args[0], t)
                o = self.fix_empty_to(ev, o, t)
                if o.t.k not in ('set', 'list') or o.t.args[0] != et:
                    raise Unsupported(f'{m} with {o.t}')
                new = SV(t, ctx.set_union(et, recv.z, o.z))
            elif m in ('pop', 'popleft'):
                if m == 'pop' and not (len(n.args) == 1 and isinstance(n.args[0], ast.Constant) and n.args[0].value == 0) and t.k == 'list':
                    raise Unsupported('list.pop(i) only for i == 0')
                x = ctx.fresh(et, 'popped')
                ev.may_raise.append((z3.Not(ctx.set_is_empty(et, recv.z)), 'IndexError' if (t.k == 'list' or t.name == 'deque') else 'KeyError',
                                     ast.unparse(n)))
                st.assume(z3.Implies(z3.Not(ctx.set_is_empty(et, recv.z)), z3.Select(recv.z, x)))
                if t.k == 'set':
                    new = SV(t, z3.Store(recv.z, x, False))
                else:
                    # a list may hold duplicates of x: afterwards x may or may not remain
                    keep = ctx.fresh(BOOL, 'dup')
                    new = SV(t, z3.Store(recv.z, x, keep))
                res = SV(et, x)
            else:
                raise Unsupported(f'{t}.{m}')
        elif t.k == 'map':
            kt, vt = t.args
            if m == 'clear':
                new = SV(t, {'dom': ctx.empty_set(kt), 'val': recv.z['val']})
            elif m == 'setdefault':
                k = self.coerce(ev.ev(n.args[0]), kt)
                d = ev.ev(n.args[1], vt)
                d = self.coerce(self.fix_empty_to(ev, d, vt), vt)
                present = z3.Select(recv.z['dom'], k.z)
                cur = ctx.select(vt, recv.z['val'], k.z)
                nv = ctx.ite(vt, present, cur, d.z)
                new = SV(t, {'dom': z3.Store(recv.z['dom'], k.z, True), 'val': ctx.store(vt, recv.z['val'], k.z, nv)})
                res = SV(vt, nv)
            elif m == 'pop':
                k = self.coerce(ev.ev(n.args[0]), kt)
                ev.may_raise.append((z3.Select(recv.z['dom'], k.z), 'KeyError', ast.unparse(n)))
                res = SV(vt, ctx.select(vt, recv.z['val'], k.z))
                new = SV(t, {'dom': z3.Store(recv.z['dom'], k.z, False), 'val': recv.z['val']})
            else:
                raise Unsupported(f'dict.{m}')
        else:
            raise Unsupported(f'{t}.{m}')
        outs = self.settle(st, ev, n.lineno)
        new.via_mutation = True
        return outs + [Outcome(o.kind, o.st, res if o.kind == 'next' else o.val) for o in self.assign_to(f.value, new, st, n.lineno)]

    # ------------------------------------------------------------------ contract application
    def frame_paths(self, c: Contract, binds: dict, st: State):
        """Resolve a contract's frame to concrete heap keys of the caller."""
        out = []
        recv = binds.get('self')
        for fp in c.frame:
            if fp.startswith('self.') or fp == 'self.*':
                if recv is None or recv.t.k != 'obj':
                    raise Unsupported(f'frame {fp} without object receiver')
                base = recv.z
                rest = fp[5:]
                if rest == '*':
                    out += [k for k in st.heap if k.startswith(base + '.')]
                elif rest.endswith('.*'):
                    pref = f'{base}.{rest[:-2]}.'
                    out += [k for k in st.heap if k.startswith(pref)]
                else:
                    out.append(f'{base}.{rest}')
            elif '.' in fp and fp.split('.')[0] in c.params and binds[fp.split('.')[0]].t.k == 'obj':
                p0, rest = fp.split('.', 1)
                base = binds[p0].z
                if rest == '*':
                    out += [k for k in st.heap if k.startswith(base + '.')]
                else:
                    out.append(f'{base}.{rest}')
            elif fp.startswith('*.'):
                out += [k for k in st.heap if k.endswith(fp[1:])]
            else:
                out.append(fp)       # record field array 'Sort.field' or global '@name'
        return out

    def havoc(self, st: State, paths):
        for p in paths:
            if p not in st.heap:
                if '.' in p and p.split('.')[0] in self.R.records:
                    self.heap_record_field(st, *p.split('.', 1))
                else:
                    raise Unsupported(f'frame path {p} not in heap')
            cur = st.heap[p]
            if cur.t.k == 'obj':
                continue
            if cur.t.k == 'lift':
                st.heap[p] = SV(cur.t, self.ctx.fresh_lifted(cur.t.args[0], cur.t.args[1], p))
            else:
                st.heap[p] = SV(cur.t, self.ctx.fresh(cur.t, p))

    def new_object(self, st: State, cls_name: str) -> SV:
        self._obj_n = getattr(self, '_obj_n', 0) + 1
        prefix = f'new{self._obj_n}_{cls_name}'
        self.populate_object(st, prefix, cls_name, 0)
        decl = self.R.find_class_by_name(cls_name)
        for d in self.class_chain(decl):
            for g, expr in d.ghost_init.items():
                path = f'{prefix}.{g}'
                st.heap[path] = self.coerce(self.eval_spec_in(st, expr, {}), st.heap[path].t)
        for k, v in st.heap.items():
            if k.startswith(prefix + '.'):
                st.old.setdefault(k, v)
        return SV(OBJ(cls_name), prefix)

    def apply_contract(self, c: Contract, binds: dict, st: State, line: int):
        self.count_use(c)
        cname = c.key.split(':')[1]
        if self.cur is not None:
            for cal, clauses in self.cur.at_call.items():
                if cname == cal or cname.endswith('.' + cal) or cname.strip('<>').endswith('.' + cal):
                    self.at_call_fired.add(cal)
                    for cl in _as_clauses(clauses):
                        if self.active(cl):
                            b = dict(self.entry_binds)
                            for nm in getattr(self.cur, 'cand_locals', ()):
                                if st.has(nm):
                                    b[nm] = st.get(nm)
                            for k_, v_ in binds.items():
                                b['arg_' + k_] = v_
                            self.vc(st, self.eval_clause(st, cl, b), name=f'at[{cal}@{self.call_site_id(line)}][{cl.label()}]',
                                    kind='ensures', line=line, serves=cl.serves)
        for cl in c.requires:
            if not self.active(cl):
                continue
            try:
                g = self.eval_clause(st, cl, binds)
            except SpecError as ex:
                raise Unsupported(str(ex))
            self.vc(st, g, name=f'call[{cname}@{self.call_site_id(line)}].requires[{cl.label()}]', kind='call-pre',
                    line=line, serves=cl.serves or self.safety_serves())
        pre_heap = dict(st.heap)
        outs = []
        if self.interrupts and self.interrupt_during and getattr(st, 'ki', 0) < self.interrupts and not c.pure:
            # scope S2: the interrupt is delivered while the callee is executing -- it may have done any part of its work
            k = st.fork()
            k.ki = getattr(st, 'ki', 0) + 1
            k.ki_points = list(getattr(st, 'ki_points', [])) + [f'{line}:inside {cname}']
            self.ki_points_seen.add(f'{line}:inside {cname}')
            self.havoc(k, self.frame_paths(c, binds, k))
            k.heap['@INTERRUPTED'] = SV(BOOL, z3.BoolVal(True))
            k.heap['@INTERRUPTS'] = SV(INT, z3.IntVal(k.ki))
            exc0 = self.new_exc(k, 'KeyboardInterrupt')
            k.ki_exc = exc0
            outs.append(Outcome('raise', k, {'exc': exc0, 'interrupt': line}))
        # exceptional exits declared by the callee
        for kind, clauses in c.raises.items():
            ex_st = st.fork()
            self.havoc(ex_st, self.frame_paths(c, binds, ex_st))
            exc = self.new_exc(ex_st, kind)
            b2 = dict(binds)
            b2['exc'] = exc
            ok = True
            for cl in clauses:
                if True:  # assumed regardless of the property slice (proved under the properties it serves)
                    ex_st.assume(self.eval_clause(ex_st, cl, b2, old=pre_heap))
            if self.feasible(ex_st):
                ex_st.fault_trail = list(getattr(st, 'fault_trail', [])) + [f'{cname}#{self.call_site_id(line)}:{kind}']
                if self.cur is not None and self.cur.crash_cond and not self.trial:
                    self.crash_check(ex_st, f'inside {cname}#{self.call_site_id(line)} ({kind})')
                outs.append(Outcome('raise', ex_st, {'exc': exc, 'from': c.key}))
        self.havoc(st, self.frame_paths(c, binds, st) + [self.resolve_ghost_path(g, binds) for g in c.ghost_at_exit])
        rt = parse_type(c.returns)
        if rt.k == 'obj':
            res = self.new_object(st, rt.name)
        else:
            res = SV(NONE, None) if rt.k == 'none' else self.fresh_sv(rt, 'ret_' + cname.split('.')[-1])
        b2 = dict(binds)
        if rt.k != 'none' or 'result' not in c.params:
            b2['result'] = res
        for gpath, gexpr in c.ghost_exit.items():
            # ghost updates are evaluated in the pre-state and are part of the frame implicitly
            tgt = self.resolve_ghost_path(gpath, binds)
            pre_view = State(st.frames, pre_heap, st.pc, pre_heap)
            nv = self.eval_spec_in(pre_view, gexpr, binds, heap=pre_heap, old=pre_heap)
            st.heap[tgt] = self.coerce(nv, st.heap[tgt].t) if tgt in st.heap else nv
        for cl in c.ensures:
            if True:  # assumed regardless of the property slice (proved under the properties it serves)
                st.assume(self.eval_clause(st, cl, b2, old=pre_heap))
        if self.cur is not None:
            for cal, updates in self.cur.ghost_after.items():
                if cname == cal or cname.endswith('.' + cal):
                    b4 = dict(self.entry_binds)
                    for nm in getattr(self.cur, 'cand_locals', ()):
                        if st.has(nm):
                            b4[nm] = st.get(nm)
                    b4['result'] = res
                    for gpath, gexpr in updates.items():
                        tgt = self.resolve_ghost_path(gpath, self.entry_binds)
                        nv = self.eval_spec_in(st, gexpr, b4)
                        st.heap[tgt] = self.coerce(nv, st.heap[tgt].t) if tgt in st.heap else nv
            for cal, clauses in self.cur.assume_after.items():
                if cname == cal or cname.endswith('.' + cal):
                    for cl in _as_clauses(clauses):
                        b3 = dict(self.entry_binds)
                        for nm in getattr(self.cur, 'cand_locals', ()):
                            if st.has(nm):
                                b3[nm] = st.get(nm)
                        b3['result'] = res
                        b3['recv'] = binds.get('self')
                        st.assume(self.eval_clause(st, cl, b3, old=pre_heap))
                        self.trusted_uses[f'assumed in {self.cur_fkey} after {cal}(): {cl.label()}'] = 1
        outs.append(Outcome('next', st, res))
        return outs

    def call_site_id(self, line):
        # stable across unrelated edits: ordinal of the call site within the function, not its line number
        lines = getattr(self, 'call_lines', None)
        if lines and line in lines:
            return lines.index(line)
        return f'L{line}'

    def resolve_ghost_path(self, gpath: str, binds: dict):
        if gpath.startswith('self.'):
            return f"{binds['self'].z}.{gpath[5:]}"
        return gpath

    # ------------------------------------------------------------------ generators
    def exec_yield(self, y, st: State, line):
        if not self.cur or not self.cur.yields and not self.cur.rely and False:
            raise Unsupported('yield in a function without a yield contract')
        ev = Evaluator(self, st)
        v = ev.ev(y.value)
        outs = self.settle(st, ev, line)
        binds = dict(self.entry_binds)
        binds['value'] = v
        n = self.yield_counter = getattr(self, 'yield_counter', 0) + 1
        if self.interrupts and getattr(st, 'ki', 0) > 0 and v.t.k == 'tuple' and len(v.t.args) == 2:
            second = SV(v.t.args[1], v.z[1])
            try:
                as_exc = self.coerce(second, U('Exc')) if second.t == U('Exc') else None
            except Unsupported:
                as_exc = None
            if as_exc is not None:
                self.vc(st, as_exc.z != st.ki_exc.z, name='interrupt[the delivered KeyboardInterrupt is never yielded as a task failure]',
                        kind='yield', line=line, serves=('C14',), detail=f'interrupt points {getattr(st, "ki_points", [])}')
        for cl in self.cur.yields:
            if self.interrupts and getattr(st, 'ki', 0) > 0:
                break      # after the interrupt only the C14 obligations apply to this path
            if self.active(cl):
                self.vc(st, self.eval_clause(st, cl, binds), name=f'yield.ensures[{cl.label()}]', kind='yield',
                        line=line, serves=cl.serves or self.safety_serves())
        # ghost effects of a yield (e.g. YIELDED |= {task})
        for gpath, gexpr in getattr(self.cur, 'ghost_yield', {}).items():
            tgt = self.resolve_ghost_path(gpath, binds)
            st.heap[tgt] = self.eval_spec_in(st, gexpr, binds)
        # the consumer may abandon the generator here, or act within the rely, then resume
        pre_heap = dict(st.heap)
        self.havoc(st, self.frame_paths(_FrameOnly(self.cur.rely, self.cur.params), binds, st))
        for cl in getattr(self.cur, 'rely_ensures', []):
            st.assume(self.eval_clause(st, cl, binds, old=pre_heap))
        return outs + [Outcome('next', st)]

    # ------------------------------------------------------------------ loops
    def modified_in(self, body, st: State):
        """Syntactic over-approximation of what a loop body may write: local names and heap paths."""
        names, paths, unknown = set(), set(), False
        for s in body:
            for n in ast.walk(s):
                if isinstance(n, ast.Name) and isinstance(n.ctx, (ast.Store, ast.Del)):
                    names.add(n.id)
                tgt = None
                if isinstance(n, (ast.Assign, ast.AugAssign, ast.AnnAssign, ast.Delete)):
                    tgts = n.targets if isinstance(n, (ast.Assign, ast.Delete)) else [n.target]
                    for t in tgts:
                        self._lvalue_root(t, names, paths, st)
                if isinstance(n, ast.Call):
                    f = n.func
                    if isinstance(f, ast.Attribute) and f.attr in MUTATORS:
                        self._lvalue_root(f.value, names, paths, st)
                    if isinstance(f, ast.Name) and st.has(f.id) and st.get(f.id).t.k == 'closure':
                        nn, pp = self.modified_in(st.get(f.id).z.body, st)
                        names |= nn
                        paths |= pp
                    else:
                        c, recv = self.static_callee(f, st)
                        if c is None and isinstance(f, ast.Attribute) and f.attr not in MUTATORS and not self.known_pure_call(n, st):
                            paths.add('*')
                        if c is not None and not c.pure:
                            try:
                                binds = {'self': recv} if recv is not None else {}
                                for p in c.params:
                                    binds.setdefault(p, None)
                                # parameters of object type in frames need the actual argument; resolve lazily
                                if any(fp.split('.')[0] in c.params for fp in c.frame if not fp.startswith('self')):
                                    ev = Evaluator(self, st.fork())
                                    binds = self.bind_args(ev, c, n, recv)
                                paths |= set(self.frame_paths(c, binds, st))
                                for gp in c.ghost_exit:
                                    paths.add(self.resolve_ghost_path(gp, binds))
                            except (Unsupported, KeyError):
                                paths.add('*')
            if isinstance(s, (ast.Expr,)) and isinstance(getattr(s, 'value', None), ast.Yield):
                pass
        return names, paths

    def known_pure_call(self, n, st):
        try:
            Evaluator(self, st.fork()).ev(n)
            return True
        except (Unsupported, KeyError, SpecError):
            return False

    def static_callee(self, f, st):
        try:
            if isinstance(f, ast.Attribute):
                root = f
                while isinstance(root, (ast.Attribute, ast.Subscript, ast.Call)):
                    root = root.func if isinstance(root, ast.Call) else root.value
                if isinstance(root, ast.Name) and not st.has(root.id) and root.id not in self.R.global_objects:
                    return self.resolve_function(ast.unparse(f)), None
                recv = Evaluator(self, st.fork()).ev(f.value)
                return self.method_contract_for(recv, f.attr), recv
            if isinstance(f, ast.Name):
                return self.resolve_function(f.id), None
        except (Unsupported, KeyError):
            pass
        return None, None

    def _lvalue_root(self, t, names, paths, st):
        while isinstance(t, ast.Subscript):
            t = t.value
        if isinstance(t, ast.Name):
            names.add(t.id)
        elif isinstance(t, ast.Attribute):
            try:
                base = Evaluator(self, st.fork()).ev(t.value)
            except (Unsupported, KeyError):
                paths.add('*')
                return
            if base.t.k == 'obj':
                paths.add(f'{base.z}.{t.attr}')
            elif base.t.k == 'u':
                paths.add(f'{base.t.name}.{t.attr}')
        elif isinstance(t, (ast.Tuple, ast.List)):
            for e in t.elts:
                self._lvalue_root(e, names, paths, st)

    def discover_writes(self, run_body, st: State):
        """Write set of a loop body, found by executing it once (trial mode: nothing is checked) from a fully
        havocked copy of the state and diffing: every local and heap location whose value object changed on
        some path.  More robust than a syntactic scan: callee frames, aliases and closures are followed for real."""
        s0 = st.fork()
        for f in s0.frames:
            for nm, v in list(f.items()):
                if isinstance(v, SV) and v.t.k not in ('closure', 'obj', 'emptycoll', 'none', 'lambda', 'thread', 'enumcls', 'exccls') \
                        and getattr(v, 'origin', None) is None and not nm.startswith('__aliaskey'):
                    try:
                        f[nm] = SV(v.t, self.ctx.fresh(v.t, 'hv_' + nm))
                    except TypeError:
                        pass
        for p, v in list(s0.heap.items()):
            if v.t.k == 'obj':
                continue
            s0.heap[p] = SV(v.t, self.ctx.fresh_lifted(v.t.args[0], v.t.args[1], p) if v.t.k == 'lift' else self.ctx.fresh(v.t, 'hv_' + p))
        snap_frames = [dict(f) for f in s0.frames]
        snap_heap = dict(s0.heap)
        self.trial += 1
        saved_sites = dict(getattr(self, '_sites', {}))
        try:
            outs = run_body(s0)
        finally:
            self.trial -= 1
            self._sites = saved_sites
        names, paths = set(), set()
        for o in outs:
            for fi, f in enumerate(o.st.frames[:len(snap_frames)]):
                for nm, v in f.items():
                    old = snap_frames[fi].get(nm)
                    if old is None or (old is not v and not self.same_repr(old, v)):
                        names.add(nm)
            for p, v in o.st.heap.items():
                old = snap_heap.get(p)
                if old is None:
                    old = self.lazy_entry.get(p)      # lazily created record field: its entry value
                if old is None or (old is not v and not self.same_repr(old, v)):
                    paths.add(p)
        return names, paths

    def same_repr(self, a: SV, b: SV):
        def eqz(x, y):
            if isinstance(x, dict) and isinstance(y, dict):
                return x.keys() == y.keys() and all(eqz(x[k], y[k]) for k in x)
            if isinstance(x, tuple) and isinstance(y, tuple):
                return len(x) == len(y) and all(eqz(p, q) for p, q in zip(x, y))
            if isinstance(x, z3.ExprRef) and isinstance(y, z3.ExprRef):
                return z3.eq(x, y)
            return x is y
        return a.t == b.t and eqz(a.z, b.z)

    def havoc_loop(self, st: State, names, paths):
        st.via_loop = True
        for nm in names:
            if st.has(nm):
                v = st.get(nm)
                if v.t.k in ('closure', 'obj', 'emptycoll', 'none', 'lambda'):
                    continue
                st.set(nm, SV(v.t, self.ctx.fresh(v.t, nm)))
        if '*' in paths:
            paths = set(st.heap)
        paths = {p for p in paths if p not in ('@INTERRUPTED', '@INTERRUPTS')} if not isinstance(paths, list) else paths
        self.havoc(st, [p for p in paths if p in st.heap or p.split('.')[0] in self.R.records])
        if getattr(st, 'yields_in_loop', False):
            pass

    def candidate_pool(self):
        return [c for c in (self.cur.candidates if self.cur else [])]

    def eval_candidates(self, st: State, cands, binds_extra):
        """-> {label: formula} for candidates that compile at this point."""
        out = {}
        binds = dict(self.entry_binds)
        # candidates may mention parameters, fields, ghosts, old(), __done__ and __ret__ only
        binds.update(binds_extra)
        ds = getattr(st, 'done_stack', [])
        if '__done__' in binds_extra:
            if ds:
                binds['__done_outer__'] = ds[-1]
        elif ds:
            binds['__done_outer__'] = ds[-1]
        if self.ret_local and st.has(self.ret_local):
            binds['__ret__'] = st.get(self.ret_local)
        for name in getattr(self.cur, 'cand_locals', ()):
            if st.has(name):
                binds[name] = st.get(name)
        for c in cands:
            try:
                sub = State([binds], st.heap, st.pc, st.old)
                v = Evaluator(self, sub, spec=True).ev(parse_spec(c.expr))
                out[c.label()] = self.truth(v)
            except (KeyError, Unsupported, SpecError, z3.Z3Exception, TypeError, AttributeError):
                continue
        return out

    def st_For(self, s, st):
        if s.orelse:
            raise Unsupported('for/else')
        loop_id = self.loop_id(s, st)
        it_outs = []
        gen = self.generator_call(s.iter, st)
        if gen is not None:
            return self.run_for_generator(s, st, gen, loop_id)
        if isinstance(s.iter, ast.Call) and self.is_effectful_call(st, s.iter):
            res = self.exec_call(s.iter, st, want_value=True)
        else:
            ev = Evaluator(self, st)
            itv = ev.ev(s.iter)
            it_outs = self.settle(st, ev, s.lineno)
            res = [Outcome('next', st, itv)]
        outs = list(it_outs)
        saved_counter = self.loop_counter
        for o in res:
            if o.kind != 'next':
                outs.append(o)
                continue
            self.loop_counter = saved_counter
            outs += self.run_for(s, o.st, o.val, loop_id)
        return outs

    def loop_id(self, s, st: State):
        """Stable id: ordinal of the loop in the function text; the Houdini result is additionally keyed by
        the branch trail that led here (the same loop reached on different paths may need different subsets)."""
        pos = (s.lineno, s.col_offset)
        if pos not in self.loop_ordinals:
            self.loop_ordinals[pos] = len(self.loop_ordinals) + 1
        return f'{self.cur_fkey}#loop{self.loop_ordinals[pos]}'

    def hkey(self, loop_id, st: State):
        return loop_id + '@' + ''.join(getattr(st, 'trail', []))

    def run_for(self, s, st: State, itv: SV, loop_id):
        ctx = self.ctx
        if itv.t.k == 'pylist':
            # constant-length literal list: unrolled
            outs, live = [], [st]
            for elem in itv.z:
                nxt = []
                for cur in live:
                    for r in self.assign_to(s.target, elem, cur, s.lineno):
                        if r.kind != 'next':
                            outs.append(r)
                            continue
                        for bo in self.exec_block(s.body, r.st):
                            if bo.kind in ('next', 'continue'):
                                nxt.append(bo.st)
                            elif bo.kind == 'break':
                                outs.append(Outcome('next', bo.st))
                            else:
                                outs.append(bo)
                live = nxt
            return outs + [Outcome('next', x) for x in live]
        if itv.t.k == 'genobj':
            return self.run_for_generator(s, st, itv, loop_id)
        ev0 = Evaluator(self, st)
        dom_t, member_fn, bind_fn = ev0.iter_domain(itv, s.target)
        list_mode = itv.t.k == 'list'
        probe = st.fork()
        for k, v in bind_fn(ctx.fresh(dom_t, 'probe_x')).items():
            probe.set(k, v)
        names, paths = self.discover_writes(lambda s0: self.exec_block(s.body, s0), probe)
        names -= {n.id for n in ast.walk(s.target) if isinstance(n, ast.Name)}
        pool = self.candidate_pool()
        line = s.lineno
        empty = ctx.empty_set(dom_t)
        S = ctx.set_comp(dom_t, member_fn) if not ctx.finite else ctx.set_comp(dom_t, member_fn)

        def head_state(base: State, done):
            h = base.fork()
            self.havoc_loop(h, names, paths)
            h.assume(ctx.subset(dom_t, done, S))
            return h

        # ---- choose the invariant
        init_forms = self.eval_candidates(st, pool, {'__done__': SV(SET(dom_t), empty)})
        if self.houdini_fixed:
            active = [l for l in self.houdini.get(self.hkey(loop_id, st), []) if l in init_forms]
        else:
            active = list(init_forms)
            # init pruning
            for l in list(active):
                status, _ = self.check_valid(st, init_forms[l])
                if status != 'discharged':
                    if os.environ.get('PYVC_HOUDINI'):
                        print(f'[houdini {loop_id}] dropped at init ({status}): {l[:160]}', file=sys.stderr)
                    active.remove(l)
            changed = True
            while changed:
                changed = False
                done = ctx.fresh(SET(dom_t), 'done')
                h = head_state(st, done)
                forms = self.eval_candidates(h, pool, {'__done__': SV(SET(dom_t), done)})
                active = [l for l in active if l in forms]
                for l in active:
                    h.assume(forms[l])
                x = ctx.fresh(dom_t, 'x')
                h.assume(member_fn(x))
                if not list_mode:
                    h.assume(z3.Not(z3.Select(done, x)))
                for k, v in bind_fn(x).items():
                    h.set(k, v)
                if not self.feasible(h):
                    break
                h.done_stack = list(getattr(st, 'done_stack', [])) + [SV(SET(dom_t), done)]
                self.trial += 1
                saved = self.loop_counter
                try:
                    body_outs = self.exec_block(s.body, h)
                finally:
                    self.trial -= 1
                    self.loop_counter = saved
                done2 = z3.Store(done, x, True)
                for bo in body_outs:
                    if bo.kind not in ('next', 'continue'):
                        continue
                    bo.st.done_stack = list(getattr(st, 'done_stack', []))
                    f2 = self.eval_candidates(bo.st, pool, {'__done__': SV(SET(dom_t), done2)})
                    for l in list(active):
                        if l not in f2:
                            active.remove(l)
                            changed = True
                            continue
                        status, _m = self.check_valid(bo.st, f2[l])
                        if status != 'discharged':
                            if os.environ.get('PYVC_HOUDINI'):
                                print(f'[houdini {loop_id}] dropped ({status}, exit {bo.kind}): {l[:160]}\n      {_m[:600]}', file=sys.stderr)
                            active.remove(l)
                            changed = True
            self.houdini[self.hkey(loop_id, st)] = list(active)

        # ---- report pass: init, preservation, body obligations with the chosen invariant
        outs = []
        labmap = {c.label(): c for c in pool}
        for l in active:
            self.vc(st, init_forms[l], name=f'loop{loop_id.split("#loop")[1]}.init[{l}]', kind='inv-init', line=line,
                    serves=labmap[l].serves)
        done = ctx.fresh(SET(dom_t), 'done')
        h = head_state(st, done)
        forms = self.eval_candidates(h, pool, {'__done__': SV(SET(dom_t), done)})
        for l in active:
            if l in forms:
                h.assume(forms[l])
        exit_state = h.fork()
        x = ctx.fresh(dom_t, 'x')
        h.assume(member_fn(x))
        if not list_mode:
            h.assume(z3.Not(z3.Select(done, x)))
        for k, v in bind_fn(x).items():
            h.set(k, v)
        h.done_stack = list(getattr(st, 'done_stack', [])) + [SV(SET(dom_t), done)]
        if self.feasible(h):
            done2 = z3.Store(done, x, True)
            for bo in self.exec_block(s.body, h):
                if bo.kind in ('next', 'continue'):
                    bo.st.done_stack = list(getattr(st, 'done_stack', []))
                    f2 = self.eval_candidates(bo.st, pool, {'__done__': SV(SET(dom_t), done2)})
                    for l in active:
                        if l in f2:
                            self.vc(bo.st, f2[l], name=f'loop{loop_id.split("#loop")[1]}.preserve[{l}]', kind='inv-preserve',
                                    line=line, serves=labmap[l].serves)
                elif bo.kind == 'break':
                    outs.append(Outcome('next', bo.st))
                else:
                    outs.append(bo)
        # ---- normal exit: every element visited
        exit_state.assume(ctx.ext_eq(SET(dom_t), done, S))
        if self.feasible(exit_state):
            outs.append(Outcome('next', exit_state))
        return outs

    def st_While(self, s, st):
        if s.orelse:
            raise Unsupported('while/else')
        loop_id = self.loop_id(s, st)
        ln = loop_id.split('#loop')[1]

        def _once(s0):
            ev = Evaluator(self, s0)
            c0 = self.truth(ev.ev(s.test))
            self.settle(s0, ev, s.lineno)
            s0.assume(c0)
            return self.exec_block(s.body, s0)
        names, paths = self.discover_writes(_once, st)
        # the loop test may contain pure calls only
        pool = self.candidate_pool()
        line = s.lineno
        init_forms = self.eval_candidates(st, pool, {})

        def head(base):
            h = base.fork()
            self.havoc_loop(h, names, paths)
            return h

        def test(h):
            ev = Evaluator(self, h)
            c = self.truth(ev.ev(s.test))
            r = self.settle(h, ev, line)
            return c, r

        if self.houdini_fixed:
            active = [l for l in self.houdini.get(self.hkey(loop_id, st), []) if l in init_forms]
        else:
            active = list(init_forms)
            for l in list(active):
                status, _ = self.check_valid(st, init_forms[l])
                if status != 'discharged':
                    active.remove(l)
            changed = True
            while changed:
                changed = False
                h = head(st)
                forms = self.eval_candidates(h, pool, {})
                active = [l for l in active if l in forms]
                for l in active:
                    h.assume(forms[l])
                self.trial += 1
                saved = self.loop_counter
                try:
                    c, _ = test(h)
                    h.assume(c)
                    body_outs = self.exec_block(s.body, h) if self.feasible(h) else []
                finally:
                    self.trial -= 1
                    self.loop_counter = saved
                for bo in body_outs:
                    if bo.kind not in ('next', 'continue'):
                        continue
                    f2 = self.eval_candidates(bo.st, pool, {})
                    for l in list(active):
                        if l not in f2:
                            active.remove(l)
                            changed = True
                            continue
                        status, _ = self.check_valid(bo.st, f2[l])
                        if status != 'discharged':
                            active.remove(l)
                            changed = True
            self.houdini[self.hkey(loop_id, st)] = list(active)

        outs = []
        labmap = {c.label(): c for c in pool}
        for l in active:
            self.vc(st, init_forms[l], name=f'loop{ln}.init[{l}]', kind='inv-init', line=line, serves=labmap[l].serves)
        h = head(st)
        forms = self.eval_candidates(h, pool, {})
        for l in active:
            if l in forms:
                h.assume(forms[l])
        c, raises = test(h)
        outs += raises
        exit_state = h.fork()
        exit_state.assume(z3.Not(c))
        h.assume(c)
        if self.feasible(h):
            for bo in self.exec_block(s.body, h):
                if bo.kind in ('next', 'continue'):
                    f2 = self.eval_candidates(bo.st, pool, {})
                    for l in active:
                        if l in f2:
                            self.vc(bo.st, f2[l], name=f'loop{ln}.preserve[{l}]', kind='inv-preserve', line=line,
                                    serves=labmap[l].serves)
                    # termination measure, where the contract declares one
                    self.check_measure(st, h, bo.st, ln, line)
                elif bo.kind == 'break':
                    outs.append(Outcome('next', bo.st))
                else:
                    outs.append(bo)
        if self.feasible(exit_state):
            outs.append(Outcome('next', exit_state))
        return outs

    def check_measure(self, st0, head, end, ln, line):
        pass

    def generator_call(self, it, st: State):
        """`for x in obj.meth(...)` where the class of obj declares a step contract `meth#yield`."""
        if not (isinstance(it, ast.Call) and isinstance(it.func, ast.Attribute)):
            return None
        try:
            recv = Evaluator(self, st.fork()).ev(it.func.value)
        except (Unsupported, KeyError):
            return None
        c = self.method_contract_for(recv, it.func.attr + '#yield')
        return (c, recv) if c is not None else None

    def run_for_generator(self, s, st: State, gen, loop_id):
        """Consumer side of a generator: each iteration first applies the step contract (what one yield tells the
        consumer), then runs the body.  The generator may stop after any number of yields."""
        c, recv = gen
        ln = loop_id.split('#loop')[1]
        line = s.lineno
        pool = self.candidate_pool()
        cname = c.key.split(':')[1].split('#')[0].split('.')[-1]
        if self.cur is not None and cname in self.cur.at_call:
            self.at_call_fired.add(cname)
        if self.cur is not None and not self.trial:
            for cal, clauses in self.cur.at_call.items():
                if cal == cname:
                    for cl in _as_clauses(clauses):
                        if self.active(cl):
                            b = dict(self.entry_binds)
                            for nm in getattr(self.cur, 'cand_locals', ()):
                                if st.has(nm):
                                    b[nm] = st.get(nm)
                            self.vc(st, self.eval_clause(st, cl, b), name=f'at[{cal}@{self.call_site_id(line)}][{cl.label()}]',
                                    kind='ensures', line=line, serves=cl.serves)

        def step(h: State):
            outs = []
            for o in self.apply_contract(c, {'self': recv}, h, line):
                if o.kind != 'next':
                    outs.append(o)
                    continue
                for r in self.assign_to(s.target, o.val, o.st, line):
                    if r.kind == 'next':
                        outs += self.exec_block(s.body, r.st)
                    else:
                        outs.append(r)
            return outs

        names, paths = self.discover_writes(step, st)
        names -= {n.id for n in ast.walk(s.target) if isinstance(n, ast.Name)}
        init_forms = self.eval_candidates(st, pool, {})
        hk = self.hkey(loop_id, st)
        if self.houdini_fixed:
            active = [l for l in self.houdini.get(hk, []) if l in init_forms]
        else:
            active = list(init_forms)
            for l in list(active):
                if self.check_valid(st, init_forms[l])[0] != 'discharged':
                    active.remove(l)
            changed = True
            while changed:
                changed = False
                h = st.fork()
                self.havoc_loop(h, names, paths)
                forms = self.eval_candidates(h, pool, {})
                active = [l for l in active if l in forms]
                for l in active:
                    h.assume(forms[l])
                self.trial += 1
                try:
                    body_outs = step(h) if self.feasible(h) else []
                finally:
                    self.trial -= 1
                for bo in body_outs:
                    if bo.kind not in ('next', 'continue'):
                        continue
                    f2 = self.eval_candidates(bo.st, pool, {})
                    for l in list(active):
                        if l not in f2 or self.check_valid(bo.st, f2[l])[0] != 'discharged':
                            active.remove(l)
                            changed = True
            self.houdini[hk] = list(active)
        outs = []
        labmap = {cc.label(): cc for cc in pool}
        for l in active:
            self.vc(st, init_forms[l], name=f'loop{ln}.init[{l}]', kind='inv-init', line=line, serves=labmap[l].serves)
        h = st.fork()
        self.havoc_loop(h, names, paths)
        forms = self.eval_candidates(h, pool, {})
        for l in active:
            if l in forms:
                h.assume(forms[l])
        exit_state = h.fork()
        if self.feasible(h):
            for bo in step(h):
                if bo.kind in ('next', 'continue'):
                    f2 = self.eval_candidates(bo.st, pool, {})
                    for l in active:
                        if l in f2:
                            self.vc(bo.st, f2[l], name=f'loop{ln}.preserve[{l}]', kind='inv-preserve', line=line, serves=labmap[l].serves)
                elif bo.kind == 'break':
                    outs.append(Outcome('next', bo.st))
                else:
                    outs.append(bo)
        outs.append(Outcome('next', exit_state))
        return outs

    # ------------------------------------------------------------------ function verification
    def initial_state(self, c: Contract):
        st = State()
        binds = {}
        if c.self_type:
            t = parse_type(c.self_type)
            if t.k == 'obj':
                me = SV(t, 'self')
                self.populate_object(st, 'self', t.name, depth=0)
            else:
                me = self.fresh_sv(t, 'self')
            st.set('self', me)
            binds['self'] = me
        for nm, ts in c.params.items():
            t = parse_type(ts)
            if t.k == 'obj':
                sv = SV(t, nm)
                self.populate_object(st, nm, t.name, depth=0)
            else:
                sv = self.fresh_sv(t, nm)
            st.set(nm, sv)
            binds[nm] = sv
        for g, ts in getattr(self.R, 'globals', {}).items():
            t = parse_type(ts)
            st.heap[f'@{g}'] = self.fresh_sv(t, g)
        for g, cls_name in self.R.global_objects.items():
            self.populate_object(st, f'@{g}', cls_name, depth=0)
        st.old = dict(st.heap)
        return st, binds

    def populate_object(self, st: State, prefix: str, cls_name: str, depth: int):
        decl = self.R.find_class_by_name(cls_name)
        if decl is None:
            raise Unsupported(f'class {cls_name} not declared')
        if depth > 4:
            return
        for d in self.class_chain(decl):
            for nm, ts in list(d.fields.items()) + list(d.ghost.items()):
                path = f'{prefix}.{nm}'
                if path in st.heap:
                    continue
                t = parse_type(ts)
                if t.k == 'obj':
                    st.heap[path] = SV(t, path)
                    self.populate_object(st, path, t.name, depth + 1)
                else:
                    st.heap[path] = self.fresh_sv(t, path)

    def find_ret_local(self, fn: ast.FunctionDef):
        for s in reversed(fn.body):
            if isinstance(s, ast.Return) and isinstance(s.value, ast.Name):
                return s.value.id
        return None

    def verify_function(self, fkey: str):
        """Symbolically execute the *current* text of fkey against its contract. Returns extraction info."""
        c = self.R.contracts[fkey]
        self.cur, self.cur_fkey = c, fkey
        self.cur_module = fkey.split(':')[0]
        self.loop_counter = 0
        self.ki_points_seen = set()
        self.handler_entry_invs = {}
        self.lazy_entry = {}
        self.canary = []
        self.loop_ordinals = {}
        self.yield_counter = 0
        self.handler_stack = []
        node, seg, l0, l1 = self.index.find(fkey)
        self.cur_fn_node = node
        self.inline_depth = 0
        self.at_call_fired = set()
        self.unknown_count = 0
        ex = Extractor(display=c.display)
        fn = ex.clean(node)
        if c.classmethod_of:
            # `cls(...)` in a classmethod constructs the defining class (assumption: not called on a subclass)
            for x in ast.walk(fn):
                if isinstance(x, ast.Call) and isinstance(x.func, ast.Name) and x.func.id == 'cls':
                    x.func = ast.copy_location(ast.Name(id=c.classmethod_of, ctx=ast.Load()), x.func)
        info = dict(function=fkey, file=self.index.module_path(self.cur_module), first_line=l0, last_line=l1,
                    source_sha256=sha(seg), contract_sha256=c.sha(), dropped=[f'line {a}: {b}' for a, b in ex.dropped])
        for x in ast.walk(fn):
            pass
        for x in sorted((y for y in ast.walk(fn) if isinstance(y, (ast.For, ast.While))), key=lambda y: (y.lineno, y.col_offset)):
            self.loop_ordinals[(x.lineno, x.col_offset)] = len(self.loop_ordinals) + 1
        self.assigned_locals = {x.id for x in ast.walk(fn) if isinstance(x, ast.Name) and isinstance(x.ctx, ast.Store)}
        self.call_lines = sorted({x.lineno for x in ast.walk(fn) if isinstance(x, (ast.Call, ast.For))})
        self.ret_local = self.find_ret_local(fn)
        self.ret_type = c.returns
        ib = self.interrupt_budget.get(fkey, 0)
        self.interrupts, self.interrupt_during = (ib if isinstance(ib, int) else ib[0]), (not isinstance(ib, int) and ib[1] == 'during')
        st, binds = self.initial_state(c)
        st.assume(self.ctx.func('INTERRUPT_MODE', [], BOOL)() == z3.BoolVal(bool(self.interrupts))) if 'INTERRUPT_MODE' in self.R.funcs else None
        if self.interrupts:
            st.heap['@INTERRUPTED'] = SV(BOOL, z3.BoolVal(False))
            st.heap['@INTERRUPTS'] = SV(INT, z3.IntVal(0))
            st.old['@INTERRUPTED'] = st.heap['@INTERRUPTED']
            st.old['@INTERRUPTS'] = st.heap['@INTERRUPTS']
        self.entry_binds = binds
        # parameter defaults declared in the real signature are not re-checked; the contract names them
        for cl in c.requires:
            if True:  # assumed regardless of the property slice (proved under the properties it serves)
                st.assume(self.eval_clause(st, cl, binds))
        if not self.trial:
            self.covers.append((fkey, self.feasible(st)))
        outs = self.exec_block(fn.body, st)
        is_gen = any(isinstance(x, (ast.Yield, ast.YieldFrom)) for x in ast.walk(fn))
        for o in outs:
            if o.kind in ('next', 'return'):
                val = o.val if o.kind == 'return' else SV(NONE, None)
                self.check_exit(c, o.st, binds, val)
            elif o.kind == 'raise':
                self.check_raise_exit(c, o.st, binds, o.val)
            else:
                raise Unsupported(f'{o.kind} escaped the function body')
        # vacuity guard: a clause "asserted at every call of X" that met no call of X proves nothing
        if not self.trial:
            for cal, clauses in c.at_call.items():
                if cal not in self.at_call_fired and any(self.active(cl) and not (cl.serves and all(str(x).startswith('A-') for x in cl.serves)) for cl in _as_clauses(clauses)):
                    full = f'{fkey}/at[{cal}][no call of `{cal}` was met: the clauses attached to it were never checked]'
                    if full not in self.obligations:
                        self.obligations[full] = Obligation(name=full, kind='ensures', fkey=fkey, serves=(), status='open',
                                                            solver='structural', line=0, detail='', model='at_call key matched no call site')
        return info

    def check_exit(self, c: Contract, st: State, binds, val: SV):
        if self.interrupts and getattr(st, 'ki', 0) > 0:
            self.vc(st, z3.BoolVal(False), name='interrupt[normal return after a KeyboardInterrupt was delivered]', kind='ensures',
                    serves=('C14',), detail=f'interrupt points {getattr(st, "ki_points", [])}')
            return
        if not self.trial and self.ctx.finite:
            self.canary.append(self.check_valid(st, z3.BoolVal(False), timeout_ms=1000)[0])
        rt = parse_type(c.returns)
        b2 = dict(binds)
        if rt.k != 'none':
            ev = Evaluator(self, st)
            val = self.fix_empty_to(ev, val, rt)
            if val.t.k == 'opt' and val.t.args[0] == rt:
                # the code returns an Optional where the contract promises a value: "not None" becomes an obligation
                self.vc(st, z3.Not(val.z['none']), name='returns[a value, not None]', kind='ensures', serves=())
                st.assume(z3.Not(val.z['none']))
                val = SV(rt, val.z['v'])
            try:
                b2['result'] = self.coerce(val, rt) if val.t != rt else val
            except Unsupported:
                if val.t.k in ('set', 'list') and rt.k in ('set', 'list') and val.t.args == rt.args:
                    b2['result'] = SV(rt, val.z)
                else:
                    raise
        elif 'result' not in c.params:
            b2['result'] = val
        for gpath, gexpr in c.ghost_exit.items():
            tgt = self.resolve_ghost_path(gpath, binds)
            entry_view = State(st.frames, st.old, st.pc, st.old)
            st.heap[tgt] = self.eval_spec_in(entry_view, gexpr, binds, heap=st.old, old=st.old)
        for gpath, gexpr in c.ghost_at_exit.items():
            tgt = self.resolve_ghost_path(gpath, binds)
            b3 = dict(b2)
            for nm in c.cand_locals:
                if st.has(nm):
                    b3[nm] = st.get(nm)
            nv = self.eval_spec_in(st, gexpr, b3)
            st.heap[tgt] = self.coerce(nv, st.heap[tgt].t) if tgt in st.heap else nv
        for cl in c.ensures:
            if not self.active(cl):
                continue
            if cl.expr.strip() == 'INV(self)':
                self.check_invariants(st, binds['self'], 'ensures.inv')
                continue
            self.vc(st, self.eval_clause(st, cl, b2), name=f'ensures[{cl.label()}]', kind='ensures', serves=cl.serves or c.serves)
        self.check_frame(c, st, binds)

    def check_invariants(self, st: State, obj: SV, prefix: str):
        for d in self.class_chain(self.class_of(obj)):
            for cl in d.invariant:
                if self.active(cl):
                    self.vc(st, self.eval_clause(st, cl, {'self': obj}), name=f'{prefix}[{cl.label()}]', kind='invariant',
                            serves=cl.serves)

    def check_frame(self, c: Contract, st: State, binds):
        """Everything outside the declared frame (and outside ghost updates) is unchanged."""
        allowed = set(self.frame_paths(c, binds, st)) | {self.resolve_ghost_path(g, binds) for g in c.ghost_exit} \
            | {self.resolve_ghost_path(g, binds) for g in c.ghost_at_exit}
        for p, v in st.heap.items():
            if p in allowed or p not in st.old or v.t.k == 'obj':
                continue
            if p.startswith('new') and p.split('_')[0][3:].isdigit():
                continue      # fields of objects allocated by this call are not part of the caller-visible frame
            o = st.old[p]
            if v.z is o.z:
                continue
            if v.t.k == 'lift':
                kt, vt = v.t.args
                g = self.ctx.forall([kt], lambda k: self.ctx.lifted_eq_at(vt, v.z, o.z, k))
            else:
                g = self.ctx.eq(v.t, v.z, o.z)
            self.vc(st, g, name=f'frame[{p} unchanged]', kind='frame', serves=c.serves)

    def check_raise_exit(self, c: Contract, st: State, binds, info):
        if not self.trial and self.ctx.finite:
            self.canary.append(self.check_valid(st, z3.BoolVal(False), timeout_ms=1000)[0])
        exc = info['exc']
        if self.interrupts and getattr(st, 'ki', 0) > 0:
            self.vc(st, self.is_kind(exc.z, 'KeyboardInterrupt'), name='interrupt[run leaves with KeyboardInterrupt, never another exception]',
                    kind='raises', serves=('C14',), detail=f'interrupt points {getattr(st, "ki_points", [])}')
            b2 = dict(binds)
            for nm in c.cand_locals:
                if st.has(nm):
                    b2[nm] = st.get(nm)
            for cl in getattr(c, 'interrupt_exit', []):
                try:
                    self.vc(st, self.eval_clause(st, cl, b2), name=f'interrupt.exit[{cl.label()}]', kind='raises', serves=('C14',))
                except SpecError:
                    pass
            return
        matched_any = False
        rest = st
        for kind, clauses in c.raises.items():
            cond = self.is_kind(exc.z, kind)
            hit = rest.fork()
            hit.assume(cond)
            rest.assume(z3.Not(cond))
            if self.feasible(hit):
                b2 = dict(binds)
                b2['exc'] = exc
                site = ('@fault[' + '>'.join(getattr(st, 'fault_trail', []) or ['raise']) + ']') if c.fault_sites else ''
                for cl in clauses:
                    if self.active(cl):
                        self.vc(hit, self.eval_clause(hit, cl, b2), name=f'raises[{kind}][{cl.label()}]{site}', kind='raises',
                                serves=cl.serves or c.serves)
        if self.feasible(rest):
            # an exception kind the contract does not allow
            self.vc(rest, z3.BoolVal(False), name=f'raises.undeclared[{info.get("implicit") or info.get("from") or "raise"}]',
                    kind='raises', serves=c.serves)


def _as_clauses(xs):
    from .contract import C
    return [C(x) if not isinstance(x, (tuple, list)) else C(*x) for x in xs]


class _EmptyDecl:
    def __init__(self, key):
        self.key = key
        self.fields, self.ghost, self.invariant, self.pure, self.bases, self.views = {}, {}, [], {}, (), {}


class _FrameOnly:
    def __init__(self, frame, params):
        self.frame = list(frame)
        self.params = params
