"""Solver context: sorts, representations, quantifiers, cardinality.

Two modes over the same API:
  * unbounded: uninterpreted sorts, z3 quantifiers, `card` uninterpreted with instantiated lemmas
  * finite   : every uninterpreted sort is an enumeration of `scope[name]` elements, every
               quantifier is expanded, `card` is *defined* as a sum of membership indicators
"""
from __future__ import annotations

import itertools

import z3

from .ty import BOOL, INT, STR, SV, T

_uid = itertools.count()


def parse_type_local(s):
    from .ty import parse_type
    return parse_type(s)

SCALARISH = ('int', 'bool', 'str', 'u', 'set', 'dset', 'list', 'cnt')


class Ctx:
    def __init__(self, finite: bool, scope: dict | None = None, enums: dict | None = None, default_scope: int = 3):
        self.finite = finite
        self.scope = dict(scope or {})
        self.default_scope = default_scope
        self.enums = dict(enums or {})          # name -> [member names]: enumerations in both modes
        self.infinite_sorts = set()              # sorts that stay uninterpreted in finite scope (targets of injections from infinite sorts)
        self.uid = next(_uid)
        self._sorts = {}
        self._consts = {}                        # sort name -> list of z3 consts (finite / enum)
        self._fresh = itertools.count()
        self._card = {}
        self._funcs = {}
        self.axioms = []                         # closed global axioms (card), part of every query

    # ------------------------------------------------------------------ sorts
    def declare_datatypes(self, groups):
        """Mutually recursive algebraic datatypes (value trees). Same in both modes (they are never enumerated)."""
        self.dt_info = getattr(self, 'dt_info', {})
        for group in groups:
            names = [g[0] for g in group]
            if all(n in self._sorts for n in names):
                continue
            dts = {n: z3.Datatype(f'{n}!{self.uid}') for n in names}
            for n, ctors in group:
                for cname, flds in ctors:
                    args = []
                    for fn, ft in flds:
                        args.append((fn, dts[ft] if ft in dts else self.sort(parse_type_local(ft))))
                    dts[n].declare(cname, *args)
            made = z3.CreateDatatypes(*[dts[n] for n in names])
            for (n, ctors), srt in zip(group, made):
                self._sorts[n] = srt
                for i, (cname, flds) in enumerate(ctors):
                    self.dt_info[cname] = ('ctor', n, srt.constructor(i), [ft for _, ft in flds])
                    self.dt_info['is_' + cname] = ('rec', n, srt.recognizer(i), None)
                    for j, (fn, ft) in enumerate(flds):
                        self.dt_info[fn] = ('acc', n, srt.accessor(i, j), ft)

    def usort(self, name: str):
        if name in self._sorts:
            return self._sorts[name]
        if name in self.enums:
            s, cs = z3.EnumSort(f'{name}!{self.uid}', [f'{name}.{m}' for m in self.enums[name]])
            self._consts[name] = list(cs)
        elif self.finite and name not in self.infinite_sorts:
            n = self.scope.get(name, self.default_scope)
            s, cs = z3.EnumSort(f'{name}!{self.uid}', [f'{name.lower()}{i}' for i in range(n)])
            self._consts[name] = list(cs)
        else:
            s = z3.DeclareSort(f'{name}')
        self._sorts[name] = s
        return s

    def is_enumerated(self, name: str) -> bool:
        self.usort(name)
        return name in self._consts

    def consts(self, name: str):
        self.usort(name)
        return self._consts[name]

    def enum_const(self, name: str, member: str):
        return self.consts(name)[self.enums[name].index(member)]

    def sort(self, t: T):
        """z3 sort of a *scalar-representable* type (int bool str u set dset)."""
        if t.k == 'int':
            return z3.IntSort()
        if t.k == 'bool':
            return z3.BoolSort()
        if t.k == 'str':
            return z3.StringSort()
        if t.k == 'u':
            return self.usort(t.name)
        if t.k in ('set', 'list'):
            return z3.ArraySort(self.sort(t.args[0]), z3.BoolSort())
        if t.k == 'cnt':
            return z3.ArraySort(self.sort(t.args[0]), z3.IntSort())
        if t.k == 'dset':
            return z3.ArraySort(self.sort(t.args[0]), self.sort(T('set', (t.args[1],))))
        raise TypeError(f'type {t} has no single z3 sort')

    # ------------------------------------------------------ representations
    def fresh_name(self, base: str) -> str:
        return f'{base}!{next(self._fresh)}'

    def fresh(self, t: T, base: str = 'v'):
        """Fresh unconstrained representation of type t."""
        if t.k in SCALARISH:
            return z3.Const(self.fresh_name(base), self.sort(t))
        if t.k == 'map':
            return {'dom': z3.Const(self.fresh_name(base + '.dom'), z3.ArraySort(self.sort(t.args[0]), z3.BoolSort())),
                    'val': self.fresh_lifted(t.args[0], t.args[1], base + '.val')}
        if t.k == 'opt':
            return {'none': z3.Const(self.fresh_name(base + '.none'), z3.BoolSort()),
                    'v': self.fresh(t.args[0], base + '.v')}
        if t.k == 'tuple':
            return tuple(self.fresh(a, f'{base}.{i}') for i, a in enumerate(t.args))
        if t.k == 'none':
            return None
        raise TypeError(f'cannot make a fresh {t}')

    def fresh_lifted(self, k: T, v: T, base: str):
        ks = self.sort(k)
        if v.k in SCALARISH:
            return z3.Const(self.fresh_name(base), z3.ArraySort(ks, self.sort(v)))
        if v.k == 'tuple':
            return tuple(self.fresh_lifted(k, a, f'{base}.{i}') for i, a in enumerate(v.args))
        if v.k == 'opt':
            return {'none': z3.Const(self.fresh_name(base + '.none'), z3.ArraySort(ks, z3.BoolSort())),
                    'v': self.fresh_lifted(k, v.args[0], base + '.v')}
        if v.k == 'none':
            return None
        if v.k == 'map':
            k2, v2 = v.args
            return {'dom': z3.Const(self.fresh_name(base + '.dom'), z3.ArraySort(ks, z3.ArraySort(self.sort(k2), z3.BoolSort()))),
                    'val': self.fresh_lifted(k, T('lift', (k2, v2)), base + '.val')}
        if v.k == 'lift':
            # family over k of families over k2: nested arrays, innermost per leaf of v2
            k2, v2 = v.args
            inner = self.fresh_lifted(k2, v2, base)
            return self._relift(ks, k2, v2, base)
        raise TypeError(f'cannot lift {v} over {k}')

    def _relift(self, ks, k2: T, v2: T, base: str):
        if v2.k in SCALARISH:
            return z3.Const(self.fresh_name(base), z3.ArraySort(ks, z3.ArraySort(self.sort(k2), self.sort(v2))))
        if v2.k == 'tuple':
            return tuple(self._relift(ks, k2, a, f'{base}.{i}') for i, a in enumerate(v2.args))
        if v2.k == 'opt':
            return {'none': z3.Const(self.fresh_name(base + '.none'), z3.ArraySort(ks, z3.ArraySort(self.sort(k2), z3.BoolSort()))),
                    'v': self._relift(ks, k2, v2.args[0], base + '.v')}
        raise TypeError(f'cannot lift a map with values {v2}')

    def select(self, v: T, lifted, key):
        if v.k in SCALARISH:
            return z3.Select(lifted, key)
        if v.k == 'tuple':
            return tuple(self.select(a, l, key) for a, l in zip(v.args, lifted))
        if v.k == 'opt':
            return {'none': z3.Select(lifted['none'], key), 'v': self.select(v.args[0], lifted['v'], key)}
        if v.k == 'none':
            return None
        if v.k == 'map':
            return {'dom': z3.Select(lifted['dom'], key), 'val': self.select(T('lift', v.args), lifted['val'], key)}
        if v.k == 'lift':
            return self._map_leaves(v.args[1], lifted, lambda a: z3.Select(a, key))
        raise TypeError(f'select on lifted {v}')

    def _map_leaves(self, v2: T, rep, fn, rep2=None):
        if v2.k in SCALARISH:
            return fn(rep) if rep2 is None else fn(rep, rep2)
        if v2.k == 'tuple':
            return tuple(self._map_leaves(a, r, fn, None if rep2 is None else rep2[i]) for i, (a, r) in enumerate(zip(v2.args, rep)))
        if v2.k == 'opt':
            return {'none': (fn(rep['none']) if rep2 is None else fn(rep['none'], rep2['none'])),
                    'v': self._map_leaves(v2.args[0], rep['v'], fn, None if rep2 is None else rep2['v'])}
        raise TypeError(f'leaves of {v2}')

    def store(self, v: T, lifted, key, val):
        if v.k in SCALARISH:
            return z3.Store(lifted, key, val)
        if v.k == 'tuple':
            return tuple(self.store(a, l, key, x) for a, l, x in zip(v.args, lifted, val))
        if v.k == 'opt':
            return {'none': z3.Store(lifted['none'], key, val['none']),
                    'v': self.store(v.args[0], lifted['v'], key, val['v'])}
        if v.k == 'none':
            return None
        if v.k == 'map':
            return {'dom': z3.Store(lifted['dom'], key, val['dom']), 'val': self.store(T('lift', v.args), lifted['val'], key, val['val'])}
        if v.k == 'lift':
            return self._map_leaves(v.args[1], lifted, lambda a, b: z3.Store(a, key, b), val)
        raise TypeError(f'store on lifted {v}')

    def lifted_eq_at(self, v: T, a, b, key):
        return self.eq(v, self.select(v, a, key), self.select(v, b, key))

    # --------------------------------------------------------------- equality
    def eq(self, t: T, a, b):
        if t.k in ('int', 'bool', 'str', 'u'):
            return a == b
        if t.k in ('set', 'dset', 'list', 'cnt'):
            return self.ext_eq(t, a, b)
        if t.k == 'tuple':
            return z3.And([self.eq(x, p, q) for x, p, q in zip(t.args, a, b)]) if t.args else z3.BoolVal(True)
        if t.k == 'opt':
            return z3.And(a['none'] == b['none'], z3.Implies(z3.Not(a['none']), self.eq(t.args[0], a['v'], b['v'])))
        if t.k == 'map':
            kt, vt = t.args
            return z3.And(self.ext_eq(T('set', (kt,)), a['dom'], b['dom']),
                          self.forall([kt], lambda k: z3.Implies(z3.Select(a['dom'], k),
                                                                 self.lifted_eq_at(vt, a['val'], b['val'], k))))
        if t.k == 'none':
            return z3.BoolVal(True)
        if t.k == 'obj':
            return z3.BoolVal(a == b)
        raise TypeError(f'eq on {t}')

    def ext_eq(self, t: T, a, b):
        """Extensional equality of arrays: `a == b` unbounded (never a nested forall), expanded in finite scope."""
        if not self.finite:
            return a == b
        kt = t.args[0]
        if t.k in ('set', 'list', 'cnt'):
            return self.forall([kt], lambda k: z3.Select(a, k) == z3.Select(b, k))
        return self.forall([kt], lambda k: self.ext_eq(T('set', (t.args[1],)), z3.Select(a, k), z3.Select(b, k)))

    def ite(self, t: T, c, a, b):
        if t.k in SCALARISH:
            return z3.If(c, a, b)
        if t.k == 'tuple':
            return tuple(self.ite(x, c, p, q) for x, p, q in zip(t.args, a, b))
        if t.k == 'opt':
            return {'none': z3.If(c, a['none'], b['none']), 'v': self.ite(t.args[0], c, a['v'], b['v'])}
        if t.k == 'map':
            return {'dom': z3.If(c, a['dom'], b['dom']), 'val': self.ite_lifted(t.args[1], c, a['val'], b['val'])}
        if t.k == 'none':
            return None
        raise TypeError(f'ite on {t}')

    def ite_lifted(self, v: T, c, a, b):
        if v.k in SCALARISH:
            return z3.If(c, a, b)
        if v.k == 'tuple':
            return tuple(self.ite_lifted(x, c, p, q) for x, p, q in zip(v.args, a, b))
        if v.k == 'opt':
            return {'none': z3.If(c, a['none'], b['none']), 'v': self.ite_lifted(v.args[0], c, a['v'], b['v'])}
        if v.k == 'none':
            return None
        if v.k == 'map':
            return {'dom': z3.If(c, a['dom'], b['dom']), 'val': self.ite_lifted(T('lift', v.args), c, a['val'], b['val'])}
        if v.k == 'lift':
            return self._map_leaves(v.args[1], a, lambda x, y: z3.If(c, x, y), b)
        raise TypeError(f'ite_lifted on {v}')

    # ------------------------------------------------------------ quantifiers
    def _bound(self, t: T):
        return z3.Const(self.fresh_name('q'), self.sort(t))

    def forall(self, ts, fn, pat=None, subst=False):
        return self._quant(ts, fn, True, pat, subst)

    def exists(self, ts, fn, pat=None, subst=False):
        return self._quant(ts, fn, False, pat, subst)

    def _quant(self, ts, fn, univ, pat=None, subst=False):
        ts = list(ts)
        if all(t.k == 'u' and self.is_enumerated(t.name) for t in ts):
            if subst:
                # side-effect-free body (spec lambdas): build it once over fresh variables, then substitute every
                # combination of enumeration constants (same formula as the expansion below, without re-walking the spec)
                doms = [self.consts(t.name) for t in ts]
                if any(not d for d in doms):
                    return z3.BoolVal(univ)
                vs = [z3.Const(self.fresh_name('qe'), self.sort(t)) for t in ts]
                body = fn(*vs)
                if not z3.is_expr(body):
                    body = z3.BoolVal(bool(body))
                bodies = [z3.substitute(body, *zip(vs, combo)) for combo in itertools.product(*doms)]
                return z3.And(bodies) if univ else z3.Or(bodies)
            bodies = [fn(*combo) for combo in itertools.product(*[self.consts(t.name) for t in ts])]
            if not bodies:
                return z3.BoolVal(univ)
            return z3.And(bodies) if univ else z3.Or(bodies)
        # mixed: expand the enumerated ones, bind the rest
        bound = []
        enum_idx = []
        for i, t in enumerate(ts):
            if t.k == 'u' and self.is_enumerated(t.name):
                enum_idx.append(i)
            else:
                bound.append((i, self._bound(t)))
        combos = itertools.product(*[self.consts(ts[i].name) for i in enum_idx]) if enum_idx else [()]
        outs = []
        for combo in combos:
            args = [None] * len(ts)
            for i, c in zip(enum_idx, combo):
                args[i] = c
            for i, b in bound:
                args[i] = b
            body = fn(*args)
            bs = [b for _, b in bound]
            kw = {}
            if pat is not None:
                try:
                    kw['patterns'] = [pat(*args)]
                except Exception:
                    kw = {}
            outs.append(z3.ForAll(bs, body, **kw) if univ else z3.Exists(bs, body, **kw))
        return (z3.And(outs) if univ else z3.Or(outs)) if len(outs) != 1 else outs[0]

    # ------------------------------------------------------------------- sets
    def empty_set(self, e: T):
        return z3.K(self.sort(e), z3.BoolVal(False))

    def full_set(self, e: T):
        return z3.K(self.sort(e), z3.BoolVal(True))

    def empty_dset(self, k: T, e: T):
        return z3.K(self.sort(k), self.empty_set(e))

    def set_is_empty(self, e: T, s):
        return self.ext_eq(T('set', (e,)), s, self.empty_set(e))

    def subset(self, e: T, a, b):
        return self.forall([e], lambda k: z3.Implies(z3.Select(a, k), z3.Select(b, k)))

    def set_union(self, e, a, b):
        return z3.SetUnion(a, b)

    def set_inter(self, e, a, b):
        return z3.SetIntersect(a, b)

    def set_diff(self, e, a, b):
        return z3.SetDifference(a, b)

    def set_comp(self, e: T, fn):
        """{k : fn(k)} as an array-valued lambda term (no fresh symbol, so it is safe under binders)."""
        if e.k == 'u' and self.is_enumerated(e.name):
            r = self.empty_set(e)
            for c in self.consts(e.name):
                r = z3.Store(r, c, fn(c))
            return r
        k = self._bound(e)
        return z3.Lambda([k], fn(k))

    # ------------------------------------------------------------ cardinality
    def card(self, e: T, s):
        if e.k == 'u' and self.is_enumerated(e.name):
            cs = self.consts(e.name)
            return z3.Sum([z3.If(z3.Select(s, c), 1, 0) for c in cs]) if cs else z3.IntVal(0)
        key = str(e)
        if key not in self._card:
            ssort = z3.ArraySort(self.sort(e), z3.BoolSort())
            f = z3.Function(f'card_{key}', ssort, z3.IntSort())
            self._card[key] = f
            S = z3.Const(f'cardS_{key}', ssort)
            x = z3.Const(f'cardx_{key}', self.sort(e))
            # closed axioms with explicit patterns; they only ever create card(S) for sub-terms S
            self.axioms.append(z3.ForAll([S], z3.And(f(S) >= 0, (f(S) == 0) == (S == self.empty_set(e))),
                                         patterns=[f(S)]))
            self.axioms.append(z3.ForAll([S, x], f(z3.Store(S, x, True)) == f(S) + z3.If(z3.Select(S, x), 0, 1),
                                         patterns=[f(z3.Store(S, x, True))]))
            self.axioms.append(z3.ForAll([S, x], f(z3.Store(S, x, False)) == f(S) - z3.If(z3.Select(S, x), 1, 0),
                                         patterns=[f(z3.Store(S, x, False))]))
        return self._card[key](s)

    # -------------------------------------------------------------- functions
    def func(self, name: str, arg_ts, res_t: T):
        """Uninterpreted function over scalar-representable types."""
        if name not in self._funcs:
            self._funcs[name] = z3.Function(name, *[self.sort(a) for a in arg_ts], self.sort(res_t))
        return self._funcs[name]
