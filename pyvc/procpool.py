"""A small process pool with a HARD wall-clock limit per job.

z3 honours its `timeout` parameter in most places but not everywhere (string / recursive-function reasoning can spin for
an hour); a check must still end.  Each job runs in its own forked process; a job that exceeds the limit is killed and
its slot in the result list holds `TimedOut`.  Never a verdict: callers report such a job as undecided.
"""
from __future__ import annotations

import multiprocessing as mp
import os
import pickle
import tempfile
import time


class TimedOut:
    def __init__(self, seconds):
        self.seconds = seconds


def _child(fn, arg, path):
    try:
        res = ('ok', fn(arg))
    except BaseException as ex:     # noqa: reported to the parent
        import traceback
        res = ('err', traceback.format_exc()[-3000:])
    with open(path + '.tmp', 'wb') as fh:
        pickle.dump(res, fh)
    os.replace(path + '.tmp', path)
    os._exit(0)


def run_jobs(fn, args, nproc, hard_limit_s):
    """-> list aligned with args: fn's result, TimedOut, or RuntimeError(text) if the child failed."""
    ctx = mp.get_context('fork')
    tmpdir = tempfile.mkdtemp(prefix='pyvc-jobs-')
    results = [None] * len(args)
    pending = list(enumerate(args))
    running = {}
    try:
        while pending or running:
            while pending and len(running) < nproc:
                i, a = pending.pop(0)
                path = os.path.join(tmpdir, f'{i}.pkl')
                p = ctx.Process(target=_child, args=(fn, a, path))
                p.start()
                running[i] = (p, path, time.time())
            time.sleep(0.05)
            for i, (p, path, t0) in list(running.items()):
                if os.path.exists(path):
                    with open(path, 'rb') as fh:
                        kind, val = pickle.load(fh)
                    results[i] = val if kind == 'ok' else RuntimeError(val)
                    p.join(5)
                    del running[i]
                elif not p.is_alive():
                    p.join()
                    if os.path.exists(path):
                        continue
                    results[i] = RuntimeError(f'worker exited with code {p.exitcode} without a result')
                    del running[i]
                elif time.time() - t0 > hard_limit_s:
                    p.kill()
                    p.join()
                    results[i] = TimedOut(hard_limit_s)
                    del running[i]
    finally:
        for p, _, _ in running.values():
            p.kill()
        for f in os.listdir(tmpdir):
            try:
                os.unlink(os.path.join(tmpdir, f))
            except OSError:
                pass
        try:
            os.rmdir(tmpdir)
        except OSError:
            pass
    return results
