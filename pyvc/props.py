"""Per-property cones: which functions under contract, lemmas, replay harnesses and assumptions decide each property.

A cone lists functions; inside them only the clauses tagged for the property (or untagged) are proved and
assumed (clause-level slicing, DESIGN section 3).
"""

TS = 'labtech.lab:TaskState'
SR = 'labtech.runners.serial:SerialRunner'
PR = 'labtech.runners.process:ProcessRunner'
PE = 'labtech.runners.process:ProcessExecutor'

COMMON_ASSUMPTIONS = [
    'A-sem: the Python semantics PyVC encodes for its fragment (evaluation order, exceptions, dict/set behaviour); cross-checked against CPython by the native replays, not proved',
    'A-own: collection fields are not aliased or mutated from outside their class (checked syntactically for the classes under contract)',
    'A-display: dropped logging/progress/monitor statements do not raise, block or touch tracked state',
    'solver: z3 unsat answers are trusted; finite-scope sat answers are replayed natively before being reported',
]

PROPS = {
    'C17': dict(
        functions=[f'{TS}.complete_task', f'{SR}.remove_results', f'{PR}.remove_results'],
        lemmas=[],
        replay='replay.c17',
        assumptions=[
            'sets iterate in an arbitrary order (every order is covered by the ghost `done` encoding)',
        ],
        design_ref='7/C17',
    ),
}
