"""Per-property cones: which functions under contract, lemmas, replay harnesses and assumptions decide each property.

A cone lists functions; inside them only the clauses tagged for the property (or untagged) are proved and
assumed (clause-level slicing, DESIGN section 3).
"""

TS = 'labtech.lab:TaskState'
TC = 'labtech.lab:TaskCoordinator'
LAB = 'labtech.lab:Lab'
SR = 'labtech.runners.serial:SerialRunner'
PR = 'labtech.runners.process:ProcessRunner'
SP = 'labtech.runners.process:SpawnProcessRunner'
FK = 'labtech.runners.process:ForkProcessRunner'
PE = 'labtech.runners.process:ProcessExecutor'
FU = 'labtech.runners.process:Future'
PM = 'labtech.runners.process'

COMMON_ASSUMPTIONS = [
    'A-sem: the Python semantics PyVC encodes for its fragment (evaluation order, exceptions, generators, dict/set behaviour); cross-checked against CPython by the native replays and seeded changes, not proved',
    'A-own: collection fields are not aliased or mutated from outside their class (locals aliasing a heap collection are tracked; other aliasing leaves the fragment)',
    'A-display: dropped logging/progress/monitor statements do not raise, block or touch tracked state',
    'solver: z3 unsat answers are trusted; finite-scope sat answers are replayed natively before being reported',
    'termination of the verified functions is not proved (only the C11 measure/no-stuck/exit lemmas)',
]

VALDEPS = ['labtech.tasks:find_tasks_in_param', 'labtech.tasks:get_direct_dependencies', 'labtech.tasks:_task_result',
           'labtech.tasks:_task_set_results_map', 'labtech.tasks:_task_set_result_meta']
SCHED = VALDEPS + [f'{TS}.__init__', f'{TS}.process_tasks', f'{TS}.insert_task', f'{TS}.start_task', f'{TS}.complete_task',
         f'{TS}.get_ready_tasks', f'{TC}.run', f'{TC}.handle_failure', f'{LAB}.run_tasks']
SERIAL = [f'{SR}.submit_task', f'{SR}.wait', f'{SR}.cancel', f'{SR}.stop', f'{SR}.pending_task_count', f'{SR}.get_result',
          f'{SR}.remove_results']
PROC = [f'{PR}.submit_task', f'{PR}.wait', f'{PR}.cancel', f'{PR}.stop', f'{PR}.pending_task_count', f'{PR}.get_result',
        f'{PR}.remove_results', f'{SP}._submit_task', f'{FK}._submit_task', f'{PM}:_subprocess_target']
EXEC = [f'{PE}._start_processes', f'{PE}.submit', f'{PE}.cancel', f'{PE}.stop', f'{PE}._consume_result_queue', f'{PE}.wait',
        f'{PM}:split_done_futures', f'{FU}.done', f'{FU}.cancelled', f'{FU}.set_result', f'{FU}.set_exception', f'{FU}.cancel',
        f'{FU}.result']

A_RUN = 'A-run: user run()/filter_context()/post_init() are deterministic functions of the task fields, the context and the direct dependencies\' results, and terminate'
A_PROC = 'A-proc (trusted multiprocessing model): a started process runs its thunk once; a future that finished without exception carries what the child function returned for that task; Manager().Queue delivers what was put'
A_CACHE = 'A-cache0/A-atomic: entries present at call start were written by save for the task whose key they carry; only a task\'s own execution writes its key; is_cached(t) is stable between plan time and submit time for a task not yet executed'
A_GDD = 'A-tree: immutable parameter values are finite trees (the cycle guard of find_tasks_in_param never fires); A-norm: fields of a constructed task hold normalised values (post of _task_post_init, C15); dataclasses.fields/getattr are trusted'

PROPS = {
    'C01': dict(functions=SCHED + SERIAL + PROC, lemmas=[], replay='replay.explore', standin='replay.explore',
                assumptions=[A_RUN, A_PROC, A_CACHE, A_GDD,
                             'tasks equal under == have equal cache keys (A-eq; false across 1/True/1.0 parameters)'],
                design_ref='7/C01'),
    'C02': dict(functions=SCHED + [f'{SR}.submit_task', f'{SR}.wait', f'{PR}.submit_task', f'{PR}.wait', f'{SP}._submit_task', f'{FK}._submit_task'],
                lemmas=[], replay='replay.explore', standin='replay.explore',
                assumptions=[A_RUN, A_PROC, A_GDD, '"start" is the submit event plus the executor\'s process start; the child cannot observe anything later than the fork/spawn snapshot'],
                design_ref='7/C02'),
    'C03': dict(functions=SCHED + [f'{SR}.submit_task', f'{PR}.submit_task'], lemmas=[], replay='replay.explore', standin='replay.explore',
                assumptions=[A_CACHE, A_GDD], design_ref='7/C03'),
    'C04': dict(functions=[f'{TS}.get_ready_tasks', f'{TS}.start_task', f'{TS}.complete_task', f'{TC}.run'] + EXEC,
                lemmas=[], replay='replay.explore', standin='replay.explore',
                assumptions=['A-limits: max_parallel is None or >= 1; max_workers >= 1; os.cpu_count() is an int',
                             '"executing" is over-approximated by "registered as running"/"active", so the bound is conservative',
                             'serial backend: SerialRunner.wait runs at most one submission per call, synchronously (no thread/process is created in serial.py)'],
                design_ref='7/C04'),
    'C05': dict(functions=[f'{TS}.get_ready_tasks', f'{TS}.start_task', f'{TC}.run', f'{PE}._start_processes', f'{PE}.submit',
                           f'{PE}.wait', f'{PE}._consume_result_queue', f'{PM}:split_done_futures'],
                lemmas=[], replay='replay.explore', standin='replay.explore',
                assumptions=['A-limits', 'resting points are the calls of Runner.wait; OS scheduling latency between Process.start() and the child running is not modelled'],
                design_ref='7/C05'),
    'C06': dict(functions=['labtech.cache:BaseCache.save', 'labtech.cache:PickleCache.save_result', 'labtech.cache:PickleCache.load_result',
                           'labtech.cache:BaseCache.load_metadata', 'labtech.cache:BaseCache.build_result_meta', 'labtech.cache:BaseCache.load_result_with_meta',
                           'labtech.cache:BaseCache.is_cached', 'labtech.runners.base:run_or_load_task', 'labtech.lab:Lab.is_cached',
                           f'{TS}.complete_task'],
                lemmas=[], replay='replay.c06', standin='replay.c06',
                assumptions=['TRUSTED file-system model (contracts on Storage.exists/file_handle/delete/find_keys, json.dump/load, pickle.dump/load, file close): see trusted_base',
                             'A-json / A-pickle: load(dump(x)) == x; A-iso: fromisoformat(isoformat(t)) == t',
                             'A-float: timedelta(seconds=td.total_seconds()) == td is floating point; treated as exact in the proof and checked natively over edge durations by replay/c06.py (bounded)',
                             'C07: distinct tasks have distinct keys (a load through key t returns what was stored for t)',
                             'persistence of the directory between processes/backends is the operating system\'s'],
                design_ref='7/C06'),
    'C08': dict(functions=['labtech.cache:BaseCache.save', 'labtech.cache:PickleCache.save_result', 'labtech.cache:PickleCache.load_result',
                           'labtech.cache:BaseCache.load_metadata', 'labtech.cache:BaseCache.load_result_with_meta', 'labtech.cache:BaseCache.is_cached',
                           'labtech.cache:BaseCache.delete', 'labtech.cache:NullCache.is_cached', 'labtech.cache:NullCache.save', 'labtech.cache:NullCache.delete',
                           'labtech.runners.base:run_or_load_task', 'labtech.lab:Lab.is_cached', 'labtech.lab:Lab.uncache_tasks',
                           'labtech.lab:TaskCoordinator.use_cache:body'],
                lemmas=[], replay='replay.c08', standin='replay.c08',
                assumptions=['TRUSTED file-system model; both LocalStorage and FsspecStorage are used through the same abstract Storage contract (that each implements it is C18\'s cone for LocalStorage; FsspecStorage is checked natively by replay/c08.py only)',
                             'a cache hit/miss decision is stable while a task has not been executed (only its own execution writes its key)',
                             'cached_tasks is read-only by construction of load_task/load_metadata (its reconstruction contract is C09)'],
                design_ref='7/C08'),
    'C12': dict(functions=['labtech.cache:BaseCache.save', 'labtech.cache:PickleCache.save_result', 'labtech.runners.base:run_or_load_task'],
                lemmas=[], replay='replay.c12',
                assumptions=['single-fault model: each trusted storage primitive on the save path may raise once (OSError/TypeError/pickling error) with the partial effect its assumed contract states',
                             'A-cache0: an entry that exists before the save is complete'],
                design_ref='7/C12'),
    'C13': dict(functions=['labtech.cache:BaseCache.save', 'labtech.cache:PickleCache.save_result'],
                lemmas=[], replay='replay.c12',
                assumptions=['crash points: every statement boundary of save/save_result and the partial-effect state of every trusted storage primitive; SIGKILL/terminate stop the child between two primitives or inside one, leaving that primitive\'s file incomplete or unchanged',
                             'A-cache0'],
                design_ref='7/C13'),
    'C10': dict(functions=SCHED + [f'{SR}.wait', f'{PR}.wait', f'{SP}._submit_task', f'{PM}:_subprocess_target', f'{PE}._consume_result_queue'],
                lemmas=[], replay='replay.c10', standin='replay.explore',
                assumptions=[A_PROC, 'that the normal exit is reached is C11'], design_ref='7/C10'),
    'C11': dict(functions=SCHED + SERIAL + [f'{PR}.submit_task', f'{PR}.wait', f'{PR}.pending_task_count'] + EXEC,
                lemmas=['C11/no-stuck', 'C11/exit', 'C11/measure'], replay='replay.explore', standin='replay.explore',
                assumptions=['A-wo: well-ordering of the naturals (one instance, hypothesis of lemma C11/no-stuck)',
                             'LIVENESS ASSUMED, NOT DECIDED: every child process terminates or dies; Manager().Queue delivers what was put before the putter exited; display code does not block; only the safety core (no stuck state, measure, exit, dead workers are failed and freed) is proved',
                             'A-acyclic: dependencies are structurally nested (no cycles)'],
                design_ref='7/C11'),
    'C14': dict(functions=[f'{TC}.run', f'{PR}.wait', f'{SR}.wait', f'{PR}.cancel', f'{PR}.stop', f'{SR}.cancel', f'{SR}.stop',
                           f'{PE}.cancel', f'{PE}.stop', f'{PE}._start_processes', f'{PE}.submit', f'{PE}.wait', 'labtech.runners.base:run_or_load_task'],
                interrupts={f'{TC}.run': 2, f'{PR}.wait': (1, 'during'), f'{SR}.wait': (1, 'during'),
                            f'{PE}._start_processes': 1, f'{PE}.submit': 1, f'{PE}.cancel': 1, f'{PE}.stop': 1, f'{PE}.wait': 1,
                            'labtech.runners.base:run_or_load_task': 1},
                lemmas=[], replay='replay.c14',
                assumptions=['PRECONDITION: continue_on_failure=True, or no task fails after the interrupt (with continue_on_failure=False a failure during the drain raises LabError, which is C10\'s behaviour)',
                             'interrupt instants covered (scope S1): every statement boundary of TaskCoordinator.run with process_completed_tasks inlined (first and second interrupt), including each point at which the wait() generator is suspended at a yield; callee bodies are atomic',
                             'stdlib frames (queue.get, Thread.join, Process.start) are atomic; real signal delivery latency is not modelled',
                             'what a terminate() in the middle of a save leaves behind is C13'],
                not_covered=['interrupt instants inside TaskState methods and inside Runner/Executor methods other than the statement boundaries listed in the evidence (scope S2) are not decided by the verifier; the native line-injection replay (replay/c14.py) samples them'],
                design_ref='7/C14'),
    'C15': dict(functions=['labtech.tasks:immutable_param_value', 'labtech.tasks:find_tasks_in_param', 'labtech.tasks:get_direct_dependencies',
                           'labtech.tasks:_task_post_init', 'labtech.tasks:_task__getstate__', 'labtech.tasks:_task__setstate__'],
                lemmas=['C15/norm-immutable/step-PV', 'C15/norm-immutable/step-PL', 'C15/norm-immutable/step-PE',
                        'C15/norm-keeps-tasks/step-PV', 'C15/norm-keeps-tasks/step-PL', 'C15/norm-keeps-tasks/step-PE',
                        'C15/norm-idempotent/step-PV', 'C15/norm-idempotent/step-PL', 'C15/norm-idempotent/step-PE'],
                replay='replay.values', standin='replay.values',
                assumptions=['TRUSTED: dataclass(frozen=True, eq=True, order=True) makes instances frozen, compares by class and field tuple and hashes consistently (checked natively by the stand-in, not proved)',
                             'structural induction over finite value trees (the induction schema emitting the step lemmas is trusted meta-theory)',
                             'A-tree: parameter values are finite trees',
                             'BOUNDED, NOT PROVED: _task_post_init, __getstate__ and __setstate__ assign attributes with computed names and are outside the translated fragment; they are decided by the native stand-in over enumerated parameter trees (depth <= 2 quick, 3 thorough) and pickle protocols 2 and HIGHEST'],
                design_ref='7/C15'),
    'C16': dict(functions=[f'{PE}._start_processes', f'{PE}.submit', f'{PE}.wait', f'{SP}._submit_task', f'{SR}.wait'],
                lemmas=[], replay='replay.c16', standin='replay.c16',
                assumptions=['TRUSTED: what fork and spawn mean (inherit memory vs fresh interpreter) is the semantics of multiprocessing; the obligation is that processes are created from the backend\'s own context object',
                             'multiprocessing.Process is the DEFAULT context\'s Process class; BaseContext.Process starts with that context\'s start method (assumed contracts)'],
                not_covered=['the fork child-side function _fork_subprocess_func / _subprocess_func (context filtering in the forked child) is not yet under contract'],
                design_ref='7/C16'),
    'C18': dict(functions=['labtech.storage:validate_file_path_key', 'labtech.storage:LocalStorage.__init__', 'labtech.storage:LocalStorage._key_to_path',
                           'labtech.storage:LocalStorage.find_keys', 'labtech.storage:LocalStorage.exists', 'labtech.storage:LocalStorage.file_handle',
                           'labtech.storage:LocalStorage.delete'],
                lemmas=[], replay='replay.c18', standin='replay.c18',
                assumptions=['TRUSTED path axioms: Path.resolve() is idempotent and returns a canonical symlink-free path; a primitive applied to a canonical path touches that path only (rmtree: its subtree, without following links out of it); iterdir lists direct children',
                             'every file-system primitive reachable in LocalStorage is one of exists/mkdir/open/rmtree/iterdir/is_dir and is logged by its assumed contract (a new primitive leaves the fragment)',
                             'no concurrent mutation of the directory tree between the check and the use'],
                design_ref='7/C18'),
    'C19': dict(functions=['labtech.utils:LoggerFileProxy.__init__', 'labtech.utils:LoggerFileProxy.write', 'labtech.utils:LoggerFileProxy.flush',
                           f'{PR}._subprocess_func', f'{PR}.wait'],
                lemmas=[], replay='replay.c19',
                assumptions=['TRUSTED causality of Manager().Queue: a put that returned in the child is visible to a later get_nowait in the parent; logging.handlers.QueueHandler.emit is a put; a result put happens after the child function returned',
                             'A-run: user code reaches stdout/stderr only through the proxies (write/flush)',
                             'records emitted directly through the labtech logger in the child go straight to the queue handler (no buffering in labtech code)',
                             'given these, the three sequential contracts (proxy exactly-once, flush-before-result, drain-after-collect-before-yield) imply delivery exactly once before run_tasks returns'],
                design_ref='7/C19'),
    'C17': dict(functions=[f'{TS}.complete_task', f'{TS}.start_task', f'{TS}.get_ready_tasks', f'{TC}.run', f'{LAB}.run_tasks',
                           f'{SR}.remove_results', f'{PR}.remove_results', f'{SR}.wait', f'{PR}.wait'],
                lemmas=[], replay='replay.c17', standin='replay.explore',
                assumptions=['sets iterate in an arbitrary order (every order is covered by the ghost `done` encoding)', A_PROC],
                design_ref='7/C17'),
}
