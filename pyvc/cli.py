"""./check <Cxx> [--tier quick|thorough] [--repo PATH] [--replay FILE] [--update-baseline]

exit 0  property held on everything decided (KNOWN-FINDING lines allowed)
exit 1  VIOLATION property=<id> replay=<path>
exit 2  undecided for infrastructure reasons      exit 3  the engine failed one of its own guards
"""
from __future__ import annotations

import argparse
import glob
import hashlib
import importlib
import json
import multiprocessing as mp
import os
import re
import subprocess
import sys
import time
import traceback

HERE = os.path.dirname(os.path.dirname(os.path.abspath(__file__)))
sys.path.insert(0, HERE)

from pyvc.props import COMMON_ASSUMPTIONS, PROPS  # noqa: E402

BASELINE_DIR = os.path.join(HERE, 'baseline')
KNOWN = os.path.join(HERE, 'known_findings.jsonl')


def _worker(args):
    fkey, prop, repo, tier = args
    interrupts = PROPS[prop].get('interrupts', {})
    from pyvc.run import verify_functions
    try:
        scope = {} if tier == 'quick' else {'Task': 4, 'Inst': 4, 'Type': 3, 'Fut': 4, 'Fid': 4}
        scope = dict(scope, **PROPS[prop].get('scope', {}))
        r = verify_functions([fkey], prop=prop, repo=repo, scope=scope, interrupts=interrupts,
                             timeout_ms=30000 if tier == 'quick' else 300000, cross_check=(tier != 'quick'))
        return fkey, r, None
    except Exception:
        return fkey, None, traceback.format_exc()


def load_known():
    known, fixed = [], []
    if os.path.exists(KNOWN):
        for line in open(KNOWN):
            line = line.strip()
            if not line or line.startswith('#'):
                continue
            rec = json.loads(line)
            (known if rec.get('kind') == 'known' else fixed).append(rec)
    return known, fixed


def match_known(known, prop, obligation):
    for k in known:
        if k['property'] == prop and re.fullmatch(k['obligation'], obligation):
            return k
    return None


def main(argv=None):
    ap = argparse.ArgumentParser()
    ap.add_argument('prop')
    ap.add_argument('--tier', default=os.environ.get('VERIF_TIER', 'quick'))
    ap.add_argument('--repo', default='/repo')
    ap.add_argument('--replay')
    ap.add_argument('--update-baseline', action='store_true')
    ap.add_argument('--no-evidence', action='store_true')
    a = ap.parse_args(argv)
    prop = a.prop
    seed = int(os.environ.get('VERIF_SEED', '0') or 0)
    if prop not in PROPS:
        print(f'unknown or unclaimed property {prop}')
        return 2
    P = PROPS[prop]
    t0 = time.time()
    if a.replay:
        return replay_file(a.replay, a.repo)

    # ------------------------------------------------------------ verify the cone, one process per function
    jobs = [(f, prop, a.repo, a.tier) for f in P['functions']]
    from pyvc.procpool import TimedOut, run_jobs
    hard = 900 if a.tier == 'quick' else 3600
    raw = run_jobs(_worker, jobs, min(16, max(1, len(jobs))), hard)
    results = []
    for job, r in zip(jobs, raw):
        if isinstance(r, TimedOut):
            # the solver did not come back within the hard limit: the function is undecided (outside what could be decided), never a verdict
            results.append((job[0], dict(obligations={}, functions=[dict(function=job[0], unsupported=f'no answer within the hard limit of {hard}s')],
                                         unsupported={job[0]: f'the solver did not return within the hard wall-clock limit of {hard}s'},
                                         trusted_uses={}, solver_time=float(hard), queries=0, houdini={}), None))
        elif isinstance(r, RuntimeError):
            results.append((job[0], None, str(r)))
        else:
            results.append(r)
    obligations, functions, unsupported, crashes = {}, [], {}, {}
    lemmas, trusted_uses, solver_time, queries, houdini = {}, {}, 0.0, 0, {}
    cross = {}
    for fkey, r, err in results:
        if err:
            crashes[fkey] = err
            continue
        obligations.update(r['obligations'])
        functions.extend(r['functions'])
        unsupported.update(r['unsupported'])
        lemmas.update(r.get('lemmas', {}))
        for k, v in r['trusted_uses'].items():
            trusted_uses[k] = trusted_uses.get(k, 0) + v
        solver_time += r['solver_time']
        queries += r['queries']
        houdini.update(r['houdini'])
        for k, v in (r.get('cross_check') or {}).items():
            cross[k] = round(cross.get(k, 0) + v, 2)
    if crashes:
        for k, v in crashes.items():
            print(f'ENGINE CRASH in {k}:\n{v}')
        return 3

    # ------------------------------------------------------------ property-level lemmas over the contracts
    from pyvc.lemmas import prove_lemmas
    lemma_obls = prove_lemmas(P.get('lemmas', []), prop, a.tier)
    obligations.update(lemma_obls)
    if P.get('purity'):
        from pyvc.source import SourceIndex
        from pyvc.syntactic import purity_frame
        obligations.update(purity_frame(SourceIndex(a.repo), P['purity'], 'purity-frame'))

    # ------------------------------------------------------------ guards against vacuity
    guard_fail = []
    if not obligations:
        guard_fail.append('zero obligations generated')
    for f in functions:
        if 'unsupported' in f:
            continue
        if f.get('cover') is False:
            guard_fail.append(f"{f['function']}: requires/invariant unsatisfiable (vacuous contract)")
        if f.get('canary') == 'discharged':
            guard_fail.append(f"{f['function']}: canary `False` was discharged on every exit (inconsistent hypotheses)")
    for k, v in lemmas.items():
        if v != 'unsat':
            guard_fail.append(f'{k}: helper lemma not proved ({v})')
    if guard_fail:
        for g in guard_fail:
            print('GUARD FAILED:', g)
        return 3

    # ------------------------------------------------------------ decide
    known, fixed = load_known()
    bfile = os.path.join(BASELINE_DIR, f'{prop}.json')
    base_names = set(json.load(open(bfile))) if os.path.exists(bfile) else set()
    refuted = [o for o in obligations.values() if o['status'] == 'refuted']
    open_ = [o for o in obligations.values() if o['status'] == 'open']
    discharged = [o for o in obligations.values() if o['status'] == 'discharged']
    # only contract-level names are stable across harmless refactors (safety/loop names quote source text / ordinals)
    stable = lambda n: (any(f'/{k}[' in n for k in ('ensures', 'ensures.inv', 'raises', 'yield.ensures')) and '@fault[' not in n and '/crash[' not in n) or n.startswith('lemma:')
    missing = sorted(n for n in base_names - set(obligations) if stable(n)) if not unsupported else []
    violations, known_hits, replays, loop_downgraded = [], [], [], []
    os.makedirs(os.path.join(HERE, 'out', 'replay'), exist_ok=True)
    for o in refuted:
        k = match_known(known, prop, o['name'])
        if k is not None:
            known_hits.append((k, o))
            continue
        rp = run_replay(P, prop, o, a.repo)
        replays.append(rp)
        if o.get('via_loop') and not rp.get('reproduced'):
            # counter-model reached through a loop abstraction and not reproducible on the real code: undecided, not a violation
            # (a new or rewritten loop whose invariant is not in the candidate pool gives exactly this picture on correct code)
            o['status'] = 'open'
            o['reason'] = 'finite-scope counter-model depends on a loop abstraction and did not replay on the real code'
            loop_downgraded.append(o)
            continue
        violations.append((o, rp))
    # bounded stand-in for what the verifier could not decide (never counted as proved)
    bounded = []
    # the bounded stand-in runs on EVERY run: besides standing in for undecided obligations it is the only thing that exercises
    # code outside the verified cone (display/monitor code assumed not to raise, constructors, glue)
    if P.get('standin'):
        bounded = run_standin(P, prop, a.repo, a.tier, seed)
        for b in bounded:
            # findings of a stand-in that are identified by a site id: known ones are reported as such, others are violations
            for fd in b.get('findings') or []:
                k = next((k for k in known if k['property'] == prop and re.fullmatch(k['obligation'], 'standin:' + fd['id'])), None)
                if k:
                    known_hits.append((k, dict(name='standin:' + fd['id'], status='refuted', model=fd.get('summary', ''))))
                else:
                    h = hashlib.sha1(fd['id'].encode()).hexdigest()[:10]
                    path = os.path.join(HERE, 'out', 'replay', f'{prop}-standin-{h}.json')
                    json.dump(dict(property=prop, obligation='bounded stand-in finding ' + fd['id'], witness=fd, reproduced=True, replay_cmd=f'./check {prop}'), open(path, 'w'), indent=1, default=str)
                    violations.append((dict(name='bounded stand-in finding ' + fd['id'], status='refuted', model=fd.get('summary', ''), function=''),
                                       dict(path=path, reproduced=True, summary=fd.get('summary', ''))))
            if b.get('violation'):
                h = hashlib.sha1((b['name'] + json.dumps(b.get('witness', ''), default=str)).encode()).hexdigest()[:10]
                b['path'] = os.path.join(HERE, 'out', 'replay', f'{prop}-standin-{h}.json')
                b['reproduced'] = True
                w = b.get('witness') or [{}]
                b['summary'] = (w[0].get('summary') or w[0].get('message') or '') if isinstance(w[0], dict) else str(w[0])
                json.dump(dict(property=prop, obligation=f'bounded stand-in {b["name"]} ({b.get("bound", "")})', undecided=[o['name'] for o in open_] + list(unsupported),
                               witness=b.get('witness'), reproduced=True, replay_cmd=f'./check {prop}'), open(b['path'], 'w'), indent=1, default=str)
                violations.append((dict(name=f"bounded stand-in {b['name']} for the undecided part (" + ', '.join(list(unsupported)[:3] + [o['name'] for o in open_][:2]) + ')',
                                        status='refuted', model=str(b.get('witness', ''))[:600], function=b.get('function', '')), b))

    # ------------------------------------------------------------ report
    for k, o in known_hits:
        print(f"KNOWN-FINDING: property={prop} {o['name']} {k['what']}")
    for o, rp in violations:
        tail = '' if rp.get('reproduced') else ' no-failing-input-found'
        print(f"VIOLATION property={prop} replay={rp['path']}{tail}")
        print(f"  failed obligation: {o['name']}")
        if rp.get('summary'):
            print(f"  replay: {rp['summary']}")
    open_ = open_ + loop_downgraded
    refuted = [o for o in refuted if o not in loop_downgraded]
    for o in open_:
        print(f"UNDECIDED (not a violation): {o['name']} [{o.get('reason', '')[:110]}]")
    for f, why in unsupported.items():
        print(f'OUTSIDE FRAGMENT (not a violation): {f}: {why}')
    for m in missing:
        print(f'UNDECIDED (not a violation): baseline obligation no longer generated: {m}')
    for b in bounded:
        if b.get('error'):
            print(f"STAND-IN ERROR (not a violation; the bounded stand-in {b.get('name')} did not complete): {str(b['error']).strip().splitlines()[-1][:200]}")

    proved_all = not refuted and not open_ and not unsupported and not missing
    # the evidence level is the level claimed in MANIFEST/claims.json; what this run actually discharged is in `coverage`
    try:
        claimed = json.load(open(os.path.join(HERE, 'tools', 'claims.json'))).get(prop, {}).get('category')
    except Exception:
        claimed = None
    level = claimed or ('proof' if proved_all and not known_hits else 'other')
    wall = time.time() - t0
    if a.update_baseline and proved_all:
        os.makedirs(BASELINE_DIR, exist_ok=True)
        json.dump(sorted(o['name'] for o in discharged), open(bfile, 'w'), indent=1)
    if not a.no_evidence and a.repo == '/repo':
        write_evidence(prop, a.tier, seed, level, P, functions, obligations, unsupported, bounded, known_hits, violations,
                       trusted_uses, solver_time, queries, wall, lemmas, houdini, missing, cross)
    print(f"{prop}: {len(discharged)}/{len(obligations)} obligations discharged, {len(refuted)} refuted, {len(open_)} open, "
          f"{len(unsupported)} functions outside the fragment; solver {solver_time:.1f}s, wall {wall:.1f}s, level={level}")
    return 1 if violations else 0


# ---------------------------------------------------------------------- replay / stand-in
def run_replay(P, prop, o, repo):
    """Try to turn a refuted obligation into a failing input of the real code (API level, then function level)."""
    h = hashlib.sha1(o['name'].encode()).hexdigest()[:10]
    path = os.path.join(HERE, 'out', 'replay', f'{prop}-{h}.json')
    rec = dict(property=prop, obligation=o['name'], function=o.get('function'), solver_model=o.get('model', ''),
               backend=o.get('backend', ''), repo=repo, reproduced=False, path=path, attempts=[])
    mod = P.get('replay')
    if mod:
        try:
            env = dict(os.environ, PYTHONPATH=f'{repo}:{HERE}', PYTHONHASHSEED='0')
            cp = subprocess.run([sys.executable, '-m', mod, '--obligation', o['name'], '--repo', repo] + (['--prop', prop] if mod in ('replay.explore', 'replay.values') else []),
                                capture_output=True, text=True, timeout=600, env=env, cwd=HERE)
            out = cp.stdout.strip().splitlines()
            res = json.loads(out[-1]) if out else {}
            rec['attempts'].append(res)
            rec['reproduced'] = bool(res.get('reproduced'))
            rec['summary'] = res.get('summary', '')
            if cp.returncode not in (0, 1):
                rec['harness_error'] = cp.stderr[-2000:]
        except Exception as ex:  # harness trouble never turns into a verdict
            rec['harness_error'] = repr(ex)
    rec['replay_cmd'] = f'./check {prop} --replay {path}'
    json.dump(rec, open(path, 'w'), indent=1)
    return rec


def replay_file(path, repo):
    rec = json.load(open(path))
    P = PROPS[rec['property']]
    o = dict(name=rec['obligation'], function=rec.get('function'), model=rec.get('solver_model', ''))
    rp = run_replay(P, rec['property'], o, repo)
    print(json.dumps({k: rp[k] for k in ('obligation', 'reproduced', 'summary') if k in rp}, indent=1))
    return 1 if rp['reproduced'] else 0


def run_standin(P, prop, repo, tier, seed):
    mod = P['standin']
    env = dict(os.environ, PYTHONPATH=f'{repo}:{HERE}', PYTHONHASHSEED=str(seed % 4294967295))
    try:
        cp = subprocess.run([sys.executable, '-m', mod, '--prop', prop, '--repo', repo, '--tier', tier],
                            capture_output=True, text=True, timeout=(900 if tier == 'quick' else 3600), env=env, cwd=HERE, start_new_session=True)
        out = cp.stdout.strip().splitlines()
        return json.loads(out[-1]) if out else []
    except Exception as ex:
        return [dict(name=f'standin:{mod}', violation=False, error=repr(ex))]


# ---------------------------------------------------------------------- evidence
def write_evidence(prop, tier, seed, level, P, functions, obligations, unsupported, bounded, known_hits, violations,
                   trusted_uses, solver_time, queries, wall, lemmas, houdini, missing, cross=None):
    obs = sorted(obligations.values(), key=lambda o: o['name'])
    n_dis = sum(1 for o in obs if o['status'] == 'discharged')
    R = None
    try:
        from pyvc.run import registry
        R = registry()
    except Exception:
        pass
    trusted = []
    if R is not None:
        trusted += [f'axiom {c.name or c.expr}: {c.expr}' for c in R.axioms]
        cone = set(P['functions'])
        for key, c in R.contracts.items():
            if key in trusted_uses or (c.trusted and key in trusted_uses):
                trusted.append(f'trusted contract {key} (used {trusted_uses.get(key, 0)}x)')
        # contracts used at call sites but not verified in this cone
    trusted += ['z3 %s' % _z3v(), 'CPython ast module (parser of the verified text)', 'PyVC itself (symbolic executor, ~3k lines, cross-checked by seeded changes and native replays)']
    samples = []
    for o in obs[:6]:
        samples.append(dict(obligation=o['name'], status=o['status'], backend=o['backend'], time_s=o['time_s'], kind=o['kind']))
    for o in obs:
        if o['status'] != 'discharged':
            samples.append(dict(obligation=o['name'], status=o['status'], counter_model=o.get('model', '')[:600], reason=o.get('reason', '')[:200]))
    explanation = ''
    if True:
        why = []
        if known_hits:
            why.append(f'{len(known_hits)} refuted obligation(s) are listed known findings')
        if violations:
            why.append(f'{len(violations)} violation(s) reported')
        if unsupported:
            why.append(f'{len(unsupported)} function(s) left the translated fragment: ' + '; '.join(f'{k}: {v}' for k, v in unsupported.items()))
        n_open = sum(1 for o in obs if o['status'] == 'open')
        if n_open:
            why.append(f'{n_open} obligation(s) undecided by the solver within budget')
        if missing:
            why.append(f'{len(missing)} baseline obligation(s) no longer generated')
        if bounded:
            why.append('bounded stand-in ran for the undecided part: ' + json.dumps(bounded)[:400])
        explanation = ('Contract-based deductive verification of the real function bodies by PyVC (VCs generated from the current /repo source, decided by z3; '
                       'finite-scope pass for invariant selection and refutation, unbounded pass for the proof). '
                       + ('In this run not every obligation of the cone is discharged: ' + '; '.join(why) if why else 'In this run every obligation of the cone is discharged.'))
    cov = dict(
        obligations=len(obs), discharged=n_dis,
        checker_cmd=f'./check {prop} --tier {tier}',
        trusted_base=trusted,
        evaluations=len(obs), distinct_nontrivial=len({o['name'] for o in obs if o['kind'] not in ('frame',)}),
        rule='one evaluation = one named proof obligation (for C12/C13: one per fault site / crash point enumerated from the code) generated from the current /repo source and decided by the solver; '
             'non-trivial = not a pure frame obligation; distinct by obligation name',
        samples=samples,
        functions_under_contract=functions,
        obligations_by_name=obs,
        houdini_invariants={k: v for k, v in houdini.items()},
        helper_lemmas=lemmas,
        bounded_items=bounded,
        known_findings=[dict(obligation=o['name'], what=k['what']) for k, o in known_hits],
        outside_fragment=unsupported,
        solver_time_s=round(solver_time, 2), solver_queries=queries,
        back_ends=sorted({o['backend'] for o in obs}),
        exhaustive=False,
    )
    if cross:
        cov['cross_check'] = dict(cross, what='thorough tier: every unbounded query z3 answered unsat was also given to cvc5 '
                                               '(agree = cvc5 unsat too; cvc5_undecided = unknown/timeout within 10 s; cvc5_sat = disagreement, obligation left undecided)')
    if explanation:
        cov['explanation'] = explanation
    ev = dict(property_id=prop, tier=tier, seed=seed, level=level, coverage=cov,
              assumptions=COMMON_ASSUMPTIONS + P.get('assumptions', []) + ([f'uncovered/assumed: {x}' for x in P.get('not_covered', [])]),
              wall_s=round(wall, 2), violations=len(violations))
    os.makedirs(os.path.join(HERE, 'evidence'), exist_ok=True)
    json.dump(ev, open(os.path.join(HERE, 'evidence', f'{prop}.json'), 'w'), indent=1)


def _z3v():
    import z3
    return z3.get_version_string()


if __name__ == '__main__':
    sys.exit(main())
